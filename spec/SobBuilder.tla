------------------------------ MODULE SobBuilder ------------------------------
(***************************************************************************)
(* The signed-object builder as a state machine (SignedObjectBuilder::new   *)
(* and its setters, finalize; src/repository/sigobj.rs:680-925).  The state *)
(* is the field record the builder holds; each setter is one action;        *)
(* finalize derives the embedded EE certificate: issuer name from the       *)
(* issuing key unless set, subject name from the one-off key unless set,    *)
(* authority key identifier = the issuing key's, key usage EE, the three    *)
(* URIs, the resources, and the signing-time attribute.  The decoded twin   *)
(* must answer every accessor with exactly that derived record (Twin).      *)
(***************************************************************************)
EXTENDS Naturals, Sequences, FiniteSets, TLC
RUris == {"u1", "u2"}
ResV == {"missing", "inherit", "b1", "b2"}
Setters == [
    serial |-> {"1", "2"}, validity |-> {"w1", "w2"}, issuer |-> {"none", "n2"}, subject |-> {"none", "n3"},
    crl_uri |-> RUris, ca_issuer |-> RUris, signed_object |-> RUris,
    v4 |-> ResV, v6 |-> ResV, asr |-> ResV, signing_time |-> {"t1", "t2"} ]
Fields == DOMAIN Setters
CONSTANT MaxSteps
VARIABLES f, script
vars == <<f, script>>
New == [serial |-> "1", validity |-> "w1", issuer |-> "none", subject |-> "none", crl_uri |-> "u1", ca_issuer |-> "u1",
        signed_object |-> "u1", v4 |-> "missing", v6 |-> "missing", asr |-> "b1", signing_time |-> "t1"]
Init == f = New /\ script = <<>>
Set(field, v) == /\ Len(script) < MaxSteps
                 /\ f' = [f EXCEPT ![field] = v]
                 /\ script' = Append(script, <<field, v>>)
Next == \E field \in Fields : \E v \in Setters[field] : Set(field, v)
Spec == Init /\ [][Next]_vars
Buildable == f.v4 # "missing" \/ f.v6 # "missing" \/ f.asr # "missing"
\* what finalize derives and the decoded twin must answer
Twin == [serial |-> f.serial, validity |-> f.validity,
         issuer |-> IF f.issuer = "none" THEN "name-of-issuing-key" ELSE f.issuer,
         subject |-> IF f.subject = "none" THEN "name-of-ee-key" ELSE f.subject,
         aki |-> "issuing-key", ski |-> "ee-key", sid |-> "ee-key", key_usage |-> "ee", basic_ca |-> "none",
         crl_uri |-> f.crl_uri, ca_issuer |-> f.ca_issuer, signed_object |-> f.signed_object,
         v4 |-> f.v4, v6 |-> f.v6, asr |-> f.asr, signing_time |-> f.signing_time]
\* the signer identifier and the certificate's subject key identifier name the same (one-off) key
SidIsSki == Twin.sid = Twin.ski
OneField == [][\A g \in Fields : (f'[g] # f[g]) => (\E v \in Setters[g] : script' = Append(script, <<g, v>>))]_vars
=============================================================================
