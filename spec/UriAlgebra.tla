----------------------------- MODULE UriAlgebra -----------------------------
(***************************************************************************)
(* rsync and HTTPS URIs (src/uri.rs) over sequences of characters.  A URI   *)
(* is the text after the scheme ("rsync://" / "https://", any letter case), *)
(* a Seq(Char).  Operators follow the property: well-formedness (the        *)
(* may-accept set), components, equality (scheme and authority              *)
(* case-insensitive, rest exact), join, parent, relative_to, is_parent_of.  *)
(***************************************************************************)
EXTENDS Naturals, Sequences, FiniteSets, SequencesExt, TLC
CONSTANT Chars                         \* alphabet of 1-character strings
Bad == " "                             \* a character URIs must not contain
\* characters no URI may contain (uri.rs: SPACE CONTROL " # < > ? [ \ ] ^ ` { | } and non-ASCII,
\* the last two classes recorded as the tokens "<ctl>" and "<hi>"), plus % ... no: % is allowed
Forbidden == {" ", "\"", "#", "<", ">", "?", "[", "\\", "]", "^", "`", "{", "|", "}", "<ctl>", "<hi>"}
Upper == <<"A","B","C","D","E","F","G","H","I","J","K","L","M","N","O","P","Q","R","S","T","U","V","W","X","Y","Z">>
LowerL == <<"a","b","c","d","e","f","g","h","i","j","k","l","m","n","o","p","q","r","s","t","u","v","w","x","y","z">>
Lower(c) == IF \E i \in 1..26 : Upper[i] = c THEN LowerL[CHOOSE i \in 1..26 : Upper[i] = c] ELSE c
LowerS(s) == [i \in 1..Len(s) |-> Lower(s[i])]
OkChars(s) == \A i \in 1..Len(s) : s[i] \notin Forbidden
Sl == "/"
StartsWith(s, p) == Len(p) <= Len(s) /\ SubSeq(s, 1, Len(p)) = p
EndsSl(s) == Len(s) > 0 /\ s[Len(s)] = Sl
DropLast(s) == SubSeq(s, 1, Len(s) - 1)
\* position of the k-th slash (0 if none)
SlashPos(s) == {i \in 1..Len(s) : s[i] = Sl}
NthSlash(s, k) == IF Cardinality(SlashPos(s)) < k THEN 0
                  ELSE CHOOSE i \in SlashPos(s) : Cardinality({j \in SlashPos(s) : j <= i}) = k
LastSlash(s) == IF SlashPos(s) = {} THEN 0 ELSE CHOOSE i \in SlashPos(s) : \A j \in SlashPos(s) : j <= i
\* segments of s split at slashes
RECURSIVE Segs(_)
Segs(s) == LET k == NthSlash(s, 1) IN
           IF k = 0 THEN <<s>> ELSE <<SubSeq(s, 1, k - 1)>> \o Segs(SubSeq(s, k + 1, Len(s)))
Dot == <<".">>
DotDot == <<".", ".">>
\* check_path: no dot segments, no empty segment except the very last one
PathOk(p) == LET sg == Segs(p) IN
             /\ \A i \in 1..Len(sg) : sg[i] # Dot /\ sg[i] # DotDot
             /\ \A i \in 1..(Len(sg) - 1) : sg[i] # <<>>

\* ------------------------------------------------------------------ rsync
RsyncWF(s) == /\ OkChars(s) /\ PathOk(s)
              /\ NthSlash(s, 2) # 0                 \* authority "/" module "/"
              /\ NthSlash(s, 1) > 1                 \* non-empty authority
              /\ NthSlash(s, 2) > NthSlash(s, 1) + 1 \* non-empty module
RAuth(s)   == SubSeq(s, 1, NthSlash(s, 1) - 1)
RModule(s) == SubSeq(s, NthSlash(s, 1) + 1, NthSlash(s, 2) - 1)
RPath(s)   == SubSeq(s, NthSlash(s, 2) + 1, Len(s))
RHead(s)   == SubSeq(s, 1, NthSlash(s, 2))          \* authority/module/
Recomposes(s) == s = RAuth(s) \o <<Sl>> \o RModule(s) \o <<Sl>> \o RPath(s)
REq(x, y) == /\ LowerS(RAuth(x)) = LowerS(RAuth(y))
             /\ SubSeq(x, NthSlash(x, 1), Len(x)) = SubSeq(y, NthSlash(y, 1), Len(y))
RSameModule(x, y) == LowerS(RAuth(x)) = LowerS(RAuth(y)) /\ RModule(x) = RModule(y)
NoneU == <<"<none>">>                               \* Option::None / Err marker
RJoin(b, p) == IF p = <<>> THEN b
               ELSE IF ~OkChars(p) \/ ~PathOk(p) THEN NoneU
               ELSE IF EndsSl(b) THEN b \o p ELSE b \o <<Sl>> \o p
StripSl(p) == IF EndsSl(p) THEN DropLast(p) ELSE p
RParent(x) == LET p == StripSl(RPath(x)) IN
              IF p = <<>> THEN NoneU
              ELSE RHead(x) \o SubSeq(p, 1, LastSlash(p))
RRelativeTo(x, y) ==                                \* path p with Join(y, p) = x
    IF ~RSameModule(x, y) THEN NoneU
    ELSE LET xp == RPath(x)  yp == RPath(y) IN
         IF yp = <<>> THEN xp
         ELSE LET yq == StripSl(yp) IN
              IF ~StartsWith(xp, yq) THEN NoneU
              ELSE IF Len(xp) = Len(yq) THEN <<>>
              ELSE IF xp[Len(yq) + 1] # Sl THEN NoneU
              ELSE SubSeq(xp, Len(yq) + 2, Len(xp))
RIsParentOf(x, y) == LET r == RRelativeTo(y, x) IN r # NoneU /\ r # <<>>
REqUpToSlash(x, y) == RSameModule(x, y) /\ StripSl(RPath(x)) = StripSl(RPath(y))

\* ------------------------------------------------------------------ https
HttpsWF(s) == OkChars(s)
HPathIdx(s) == IF NthSlash(s, 1) = 0 THEN Len(s) + 1 ELSE NthSlash(s, 1)
HAuth(s) == SubSeq(s, 1, HPathIdx(s) - 1)
HPath(s) == SubSeq(s, HPathIdx(s), Len(s))
HEq(x, y) == LowerS(HAuth(x)) = LowerS(HAuth(y)) /\ HPath(x) = HPath(y)
HJoin(b, p) == IF ~OkChars(p) THEN NoneU
               ELSE IF EndsSl(HPath(b)) THEN b \o p ELSE b \o <<Sl>> \o p
HParent(x) == LET p == StripSl(HPath(x)) IN
              IF p = <<>> THEN NoneU
              ELSE HAuth(x) \o SubSeq(p, 1, LastSlash(p))
HBeneath(b, x) == LET d == IF EndsSl(HPath(b)) THEN b ELSE b \o <<Sl>> IN
                  HAuth(b) = HAuth(x) /\ StartsWith(x, d) /\ Len(x) > Len(d)
=============================================================================
