CONSTANTS B = 2 Inf = 999 DocId = 1
CONSTANT Doc <- DocDef
SPECIFICATION Spec
INVARIANTS Budgeted TripBound ReadBound UsedBound
PROPERTIES Refuses EndlessRefused
CHECK_DEADLOCK FALSE
