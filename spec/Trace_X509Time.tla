--------------------------- MODULE Trace_X509Time ---------------------------
(* Operations recorded from the real Time / Validity / Serial types with      *)
(* random full-range values: every encoding, decoding verdict, window check   *)
(* and minimal DER serial must be what the specification's operators say.     *)
EXTENDS X509Time, Json, IOUtils, TLCExt
Rec == ndJsonDeserialize(IOEnv.TRACE)
VARIABLE l
Q(x) == [i \in 1..Len(x) |-> x[i]]
EvEnc(e) == LET t == Q(e.t) IN ValidTime(t) /\ e.tag = Tag(t) /\ Q(e.str) = Enc(t) /\ Q(e.back) = t
EvDec(e) == LET d == Dec(e.tag, Q(e.s)) IN
              IF e.ok THEN d # ErrT /\ Q(e.val) = d            \* accepted => well-formed, same value
              ELSE IF d = ErrT THEN TRUE                    \* (IF, not \/: disjunctions in actions are not short-circuit)
                   ELSE IF e.tag # Tag(d) THEN TRUE ELSE d[1] = 0   \* only non-canonical forms may be refused
EvWin(e) == /\ e.ok = Within(e.nb, e.na, e.now)
            /\ Q(e.trim) = TrimW(<<e.nb, e.na>>, <<e.nb2, e.na2>>)
EvSer(e) == Q(e.der) = MinimalDer(Q(e.bytes)) /\ e.back_ok
TInit == l = 1
TNext == /\ l <= Len(Rec)
         /\ LET e == Rec[l] IN
              CASE e.ev = "enc" -> EvEnc(e) [] e.ev = "dec" -> EvDec(e)
                [] e.ev = "win" -> EvWin(e) [] e.ev = "ser" -> EvSer(e) [] OTHER -> FALSE
         /\ l' = l + 1
TraceSpec == TInit /\ [][TNext]_l
TraceAccepted ==
    LET d == TLCGet("stats").diameter IN
    IF d - 1 = Len(Rec) THEN TRUE ELSE Print(<<"TRACE-REJECTED", d>>, FALSE)
=============================================================================
