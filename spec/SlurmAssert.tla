----------------------------- MODULE SlurmAssert -----------------------------
(***************************************************************************)
(* SLURM locally added assertions (RFC 8416 section 3.4 + ASPA,            *)
(* src/slurm.rs: LocallyAddedAssertions, PrefixAssertion, BgpsecAssertion,  *)
(* AspaAssertion, their serde forms, iter_payload).  Slurm.tla is the drop  *)
(* decision; this module is the other half of the statement: "serialising   *)
(* a file to JSON and parsing it back gives an equal file, and each         *)
(* assertion yields the payload item with exactly its fields".              *)
(*                                                                         *)
(* A file's assertion lists are grown one assertion at a time.  Values are  *)
(* classes the harness realises at the edges of their types: prefix length  *)
(* 0 / middle / host, maximum length absent / equal / longer / the family's *)
(* maximum, AS 0 / an ordinary one / 2^32-1, router key information of      *)
(* 0..4 octets (every base64 padding class and the empty key), provider     *)
(* lists that are empty, unsorted or repeat a member.  The JSON form is     *)
(* modelled as the set of members an assertion is written with (optional    *)
(* members are absent, never null) and what a reader gets from them.        *)
(***************************************************************************)
EXTENDS Naturals, Sequences, FiniteSets, TLC
CONSTANT MaxAssert
Asns == {0, 1, 2}
None == "none"
PrefixA == {[kind |-> "prefix", fam |-> f, len |-> l, maxlen |-> m, asn |-> a, comment |-> c] :
              f \in {4, 6}, l \in {"zero", "mid", "host"}, m \in {None, "same", "more", "top"}, a \in Asns, c \in BOOLEAN}
           \ {x \in [kind : {"prefix"}, fam : {4, 6}, len : {"host"}, maxlen : {"more"}, asn : Asns, comment : BOOLEAN] : TRUE}
BgpsecA == {[kind |-> "bgpsec", ski |-> k, asn |-> a, keylen |-> n, comment |-> c] : k \in {"k1", "k2"}, a \in Asns, n \in 0..4, c \in BOOLEAN}
AspaA   == {[kind |-> "aspa", customer |-> a, providers |-> p, comment |-> c] :
              a \in Asns, p \in {<<>>, <<1>>, <<1, 2>>, <<2, 1>>, <<1, 1>>}, c \in BOOLEAN}
Assertions == PrefixA \cup BgpsecA \cup AspaA

\* ---- the payload item an assertion stands for: its fields without the comment
ItemOf(a) == CASE a.kind = "prefix" -> [kind |-> "prefix", fam |-> a.fam, len |-> a.len, maxlen |-> a.maxlen, asn |-> a.asn]
               [] a.kind = "bgpsec" -> [kind |-> "bgpsec", ski |-> a.ski, asn |-> a.asn, keylen |-> a.keylen]
               [] a.kind = "aspa"   -> [kind |-> "aspa", customer |-> a.customer, providers |-> a.providers]
\* ---- the JSON object of one assertion: member name -> value; optional members are left out
Json1(a) ==
    LET base == CASE a.kind = "prefix" -> [prefix |-> <<a.fam, a.len>>, asn |-> a.asn]
                  [] a.kind = "bgpsec" -> [SKI |-> a.ski, asn |-> a.asn, routerPublicKey |-> a.keylen]
                  [] a.kind = "aspa"   -> [customerAsid |-> a.customer, providerSet |-> a.providers]
        withMax == IF a.kind = "prefix" /\ a.maxlen # None THEN base @@ [maxPrefixLength |-> a.maxlen] ELSE base
    IN IF a.comment THEN withMax @@ [comment |-> TRUE] ELSE withMax
Has(o, m) == m \in DOMAIN o
Parse1(kind, o) ==
    CASE kind = "prefix" -> [kind |-> "prefix", fam |-> o.prefix[1], len |-> o.prefix[2],
                             maxlen |-> IF Has(o, "maxPrefixLength") THEN o.maxPrefixLength ELSE None,
                             asn |-> o.asn, comment |-> Has(o, "comment")]
      [] kind = "bgpsec" -> [kind |-> "bgpsec", ski |-> o.SKI, asn |-> o.asn, keylen |-> o.routerPublicKey, comment |-> Has(o, "comment")]
      [] kind = "aspa"   -> [kind |-> "aspa", customer |-> o.customerAsid, providers |-> o.providerSet, comment |-> Has(o, "comment")]

VARIABLE alist
Init == alist = <<>>
Add == Len(alist) < MaxAssert /\ \E a \in Assertions : alist' = Append(alist, a)
Spec == Init /\ [][Add]_alist
Of(k) == SelectSeq(alist, LAMBDA a : a.kind = k)
\* iter_payload: the three lists one after the other, each in its own order
Yield == [i \in 1..Len(Of("prefix")) |-> ItemOf(Of("prefix")[i])] \o [i \in 1..Len(Of("bgpsec")) |-> ItemOf(Of("bgpsec")[i])]
         \o [i \in 1..Len(Of("aspa")) |-> ItemOf(Of("aspa")[i])]
YieldsEach == Len(Yield) = Len(alist) /\ \A a \in {alist[i] : i \in 1..Len(alist)} : \E j \in 1..Len(Yield) : Yield[j] = ItemOf(a)
RoundTrip == \A i \in 1..Len(alist) : Parse1(alist[i].kind, Json1(alist[i])) = alist[i]
\* a file has the aspaAssertions member (and says version 2) exactly when it has an ASPA list
=============================================================================
