-------------------------------- MODULE CaXml --------------------------------
(***************************************************************************)
(* The XML carried by the CA protocols (RFC 6492 provisioning, RFC 8181     *)
(* publication, RFC 8183 identity exchange): src/xml/encode.rs,             *)
(* src/xml/decode.rs, src/ca/{provisioning,publication,idexchange}.rs.      *)
(*                                                                          *)
(*  1. The escaping machine.  A writer appends the characters of a value    *)
(*     one by one; in attribute mode < > " ' & are replaced by entities, in *)
(*     PCDATA mode < and &.  What has been written so far (raw) must be     *)
(*     well-formed in its context and un-escape to the value (RoundTrip).   *)
(*     Values are arbitrary strings, in particular ones that already look   *)
(*     like entities ("&lt;"), so the escaping must not be idempotent-lazy. *)
(*  2. The field table: for every message variant, which fields exist, how  *)
(*     each is carried (escaped attribute, raw element text, base64 text)   *)
(*     and which characters the public API admits in it.  CarrierSafe says  *)
(*     that no field whose domain contains < or & is written raw.           *)
(*  3. The case machine: variant x focus field x value string x list shape  *)
(*     x optional-field presence; every state is a replay case.             *)
(***************************************************************************)
EXTENDS Naturals, Sequences, FiniteSets, TLC

\* ---------------------------------------------------------------- 1. escaping
\* one-character strings; "a" "l" "t" ";" also occur inside entity names, so values like "&lt;" are in range
Alphabet == {"a", "<", ">", "&", "\"", "'", ";", "l", "t"}
Modes == {"attr", "pcdata"}
Rep(mode, c) ==
    CASE c = "<" -> <<"&", "l", "t", ";">>
      [] c = "&" -> <<"&", "a", "m", "p", ";">>
      [] c = ">" /\ mode = "attr" -> <<"&", "g", "t", ";">>
      [] c = "\"" /\ mode = "attr" -> <<"&", "q", "u", "o", "t", ";">>
      [] c = "'" /\ mode = "attr" -> <<"&", "a", "p", "o", "s", ";">>
      [] OTHER -> <<c>>
RECURSIVE Esc(_, _)
Esc(mode, s) == IF s = <<>> THEN <<>> ELSE Rep(mode, Head(s)) \o Esc(mode, Tail(s))

\* the predefined entities and the numeric references of the same five characters (a reader accepts either form)
EntTable == { << <<"l", "t">>, "<" >>, << <<"g", "t">>, ">" >>, << <<"a", "m", "p">>, "&" >>, << <<"q", "u", "o", "t">>, "\"" >>,
              << <<"a", "p", "o", "s">>, "'" >>,
              << <<"#", "6", "0">>, "<" >>, << <<"#", "6", "2">>, ">" >>, << <<"#", "3", "8">>, "&" >>, << <<"#", "3", "4">>, "\"" >>,
              << <<"#", "3", "9">>, "'" >>,
              << <<"#", "x", "3", "c">>, "<" >>, << <<"#", "x", "3", "e">>, ">" >>, << <<"#", "x", "2", "6">>, "&" >>,
              << <<"#", "x", "2", "2">>, "\"" >>, << <<"#", "x", "2", "7">>, "'" >> }
Entities == {e[1] : e \in EntTable}
EntChar(n) == (CHOOSE e \in EntTable : e[1] = n)[2]
\* position of the first ";" at or after i, 0 if none
RECURSIVE Semi(_, _)
Semi(s, i) == IF i > Len(s) THEN 0 ELSE IF s[i] = ";" THEN i ELSE Semi(s, i + 1)
Bad == <<"!bad">>
\* what a conforming reader makes of raw text in the given context; Bad when it is not well-formed there
RECURSIVE Unesc(_, _, _)
Unesc(mode, s, i) ==
    IF i > Len(s) THEN <<>>
    ELSE IF s[i] = "<" \/ (mode = "attr" /\ s[i] = "\"") THEN Bad
    ELSE IF s[i] = "&" THEN
        LET j == Semi(s, i + 1) IN
        IF j = 0 \/ SubSeq(s, i + 1, j - 1) \notin Entities THEN Bad
        ELSE LET r == Unesc(mode, s, j + 1) IN IF r = Bad THEN Bad ELSE <<EntChar(SubSeq(s, i + 1, j - 1))>> \o r
    ELSE LET r == Unesc(mode, s, i + 1) IN IF r = Bad THEN Bad ELSE <<s[i]>> \o r
Read(mode, raw) == Unesc(mode, raw, 1)

\* ---------------------------------------------------------------- 2. field table
\* character domains the public constructors admit
Domains == {"handle", "free", "uri", "b64", "fixed", "resources", "time", "hex", "keyid", "code"}
\* does a value of the domain possibly contain the character?
MayContain(d) == CASE d = "free" -> {"<", ">", "&", "\"", "'"}
                   [] d = "uri" -> {"&", "'"}                 \* RFC 3986 sub-delims allowed by uri.rs
                   [] d = "fixed" -> {"\"", "'"}              \* the RFC's canned error texts quote "hash"
                   [] OTHER -> {}
Carriers == {"attr", "raw", "base64"}
F(n, c, d) == [name |-> n, carrier |-> c, domain |-> d]
Variants == {"child_request", "parent_response", "publisher_request", "repository_response",
             "prov_list", "prov_list_response", "prov_issue", "prov_issue_response", "prov_revoke", "prov_revoke_response",
             "prov_error_response",
             "pub_list_query", "pub_list_reply", "pub_delta", "pub_success", "pub_error_reply"}
Fields(v) ==
    CASE v = "child_request" -> {F("child_handle", "attr", "handle"), F("tag", "attr", "free"), F("id_cert", "raw", "b64")}
      [] v = "parent_response" -> {F("parent_handle", "attr", "handle"), F("child_handle", "attr", "handle"),
                                   F("service_uri", "attr", "free"), F("tag", "attr", "free"), F("id_cert", "raw", "b64")}
      [] v = "publisher_request" -> {F("publisher_handle", "attr", "handle"), F("tag", "attr", "free"), F("id_cert", "raw", "b64")}
      [] v = "repository_response" -> {F("publisher_handle", "attr", "handle"), F("service_uri", "attr", "free"),
                                       F("sia_base", "attr", "uri"), F("rrdp_notification_uri", "attr", "uri"),
                                       F("tag", "attr", "free"), F("id_cert", "raw", "b64")}
      [] v = "prov_list" -> {F("sender", "attr", "handle"), F("recipient", "attr", "handle")}
      [] v \in {"prov_list_response", "prov_issue_response"} ->
            {F("sender", "attr", "handle"), F("recipient", "attr", "handle"), F("class_name", "attr", "free"),
             F("cert_url", "attr", "uri"), F("resource_set_as", "attr", "resources"), F("resource_set_ipv4", "attr", "resources"),
             F("resource_set_ipv6", "attr", "resources"), F("resource_set_notafter", "attr", "time"),
             F("issued_cert_url", "attr", "uri"), F("req_resource_set", "attr", "resources"),
             F("certificate", "base64", "b64"), F("issuer", "base64", "b64")}
      [] v = "prov_issue" -> {F("sender", "attr", "handle"), F("recipient", "attr", "handle"), F("class_name", "attr", "free"),
                              F("req_resource_set", "attr", "resources"), F("csr", "base64", "b64")}
      [] v \in {"prov_revoke", "prov_revoke_response"} ->
            {F("sender", "attr", "handle"), F("recipient", "attr", "handle"), F("class_name", "attr", "free"), F("ski", "attr", "keyid")}
      [] v = "prov_error_response" -> {F("sender", "attr", "handle"), F("recipient", "attr", "handle"),
                                       F("status", "raw", "code"), F("description", "raw", "fixed")}
      [] v = "pub_list_query" -> {}
      [] v = "pub_list_reply" -> {F("uri", "attr", "uri"), F("hash", "attr", "hex")}
      [] v = "pub_delta" -> {F("tag", "attr", "free"), F("uri", "attr", "uri"), F("hash", "attr", "hex"), F("content", "raw", "b64")}
      [] v = "pub_success" -> {}
      [] OTHER -> {F("error_code", "attr", "code"), F("error_text", "raw", "fixed")}
\* raw element text is not escaped by the writer and not un-escaped by the reader: safe only without < and &
CarrierSafe == \A v \in Variants : \A f \in Fields(v) :
                  f.carrier = "raw" => MayContain(f.domain) \cap {"<", "&"} = {}
\* fields the case machine focuses on: those in which XML-special characters can occur at all, and the handles (RFC 8183:
\* 1 to 255 characters out of [-_A-Za-z0-9/]), whose length limits sit in the constructors and in the parsers
Focusable(v) == {f.name : f \in {g \in Fields(v) : MayContain(g.domain) # {} \/ g.domain = "handle"}}

=============================================================================
