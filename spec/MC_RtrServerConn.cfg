CONSTANTS StreamId = 1 MaxNotify = 2 HeaderSurvives = TRUE
CONSTANT Queries <- QueriesDef
SPECIFICATION Spec
VIEW view
INVARIANTS AnswersInOrder NoLoss NoGarbage Complete NotifyCount Emit
PROPERTY AllAnswered
CHECK_DEADLOCK FALSE
