CONSTANTS StreamId = 1 MaxNotify = 2 HeaderSurvives = TRUE
CONSTANT Queries <- QueriesDef
SPECIFICATION Spec
VIEW view
INVARIANTS AnswersInOrder NoLoss NoGarbage Complete NotifyCount OneVersion Emit
PROPERTY AllAnswered
CHECK_DEADLOCK FALSE
