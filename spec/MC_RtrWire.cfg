CONSTANTS Entries <- QuickEntries
          Types = {0, 3, 4, 5, 6, 7, 8, 9, 10, 11}
          Vers = {0, 1, 2, 3}
          Lens = {0, 7, 8, 12, 16, 20, 21, 24, 32, 34, 36}
          Avails <- QuickAvails
SPECIFICATION Spec
INVARIANTS Bounded OkMeansComplete ErrMeansBroken SkipStopsAtEof NeverWaitsBeyondHeader Emit
PROPERTY Terminates
CHECK_DEADLOCK FALSE
