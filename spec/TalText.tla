------------------------------- MODULE TalText -------------------------------
(***************************************************************************)
(* Trust anchor locator files (RFC 8630; src/repository/tal.rs).  A file    *)
(* is a sequence of lines: comment lines, then URI lines, an empty line,    *)
(* then the base64 of the key split over lines.  The reader is transcribed  *)
(* as an automaton over the lines (Tal::read_named: skip_line while the     *)
(* next byte is '#', take_uri until an empty line, the rest with all white  *)
(* space removed is base64).  Laws:                                         *)
(*   RenderParse   every file rendered from (comments, uris, key chunks)    *)
(*                 with either line ending reads back as exactly those URIs *)
(*                 in order and that key (no key chunk: refused);           *)
(*   PreferHttps   prefer_https is a stable partition (https first, order   *)
(*                 within each scheme kept).                                *)
(***************************************************************************)
EXTENDS Naturals, Sequences, FiniteSets, TLC
Endings == {"lf", "crlf"}
UriKinds == {"r1", "r2", "h1", "h2"}        \* two rsync and two https URIs
IsHttps(u) == u \in {"h1", "h2"}
\* a line = [t |-> type, v |-> value, e |-> ending]; the last key line may lack its ending ("none")
CONSTANTS MaxComments, MaxUris, MaxChunks
VARIABLES comments, uris, chunks, ending, lastEnding
vars == <<comments, uris, chunks, ending, lastEnding>>
Init == /\ comments = 0 /\ uris = <<>> /\ chunks = 0
        /\ ending \in Endings /\ lastEnding \in Endings \cup {"none"}
AddComment == comments < MaxComments /\ uris = <<>> /\ chunks = 0 /\ comments' = comments + 1 /\ UNCHANGED <<uris, chunks, ending, lastEnding>>
AddUri == Len(uris) < MaxUris /\ chunks = 0 /\ \E u \in UriKinds : uris' = Append(uris, u) /\ UNCHANGED <<comments, chunks, ending, lastEnding>>
AddChunk == chunks < MaxChunks /\ chunks' = chunks + 1 /\ UNCHANGED <<comments, uris, ending, lastEnding>>
Next == AddComment \/ AddUri \/ AddChunk
Spec == Init /\ [][Next]_vars
\* ---- the rendered file as a sequence of lines
Lines == [i \in 1..comments |-> [t |-> "comment", v |-> "c", e |-> ending]]     \* skip_line looks for the LF only, so CR LF is fine too
         \o [i \in 1..Len(uris) |-> [t |-> "uri", v |-> uris[i], e |-> ending]]
         \o << [t |-> "blank", v |-> "", e |-> ending] >>
         \o [i \in 1..chunks |-> [t |-> "key", v |-> i, e |-> IF i = chunks THEN lastEnding ELSE ending]]
\* ---- the reader, transcribed: phase "c" (comments), "u" (URIs), "k" (key); result or "err"
RECURSIVE Read(_, _, _, _, _)
Read(ls, i, phase, us, ks) ==
    IF i > Len(ls) THEN (IF phase = "k" /\ ks # <<>> THEN [ok |-> TRUE, uris |-> us, key |-> ks]      \* no base64 at all is no key
                         ELSE [ok |-> FALSE, uris |-> <<>>, key |-> <<>>])
    ELSE LET l == ls[i] IN
      IF phase = "c" /\ l.t = "comment" THEN Read(ls, i + 1, "c", us, ks)
      ELSE IF phase \in {"c", "u"} THEN
            IF l.e = "none" THEN [ok |-> FALSE, uris |-> <<>>, key |-> <<>>]          \* take_uri needs the line feed
            ELSE IF l.t = "blank" THEN Read(ls, i + 1, "k", us, ks)
            ELSE IF l.t = "uri" THEN Read(ls, i + 1, "u", Append(us, l.v), ks)
            ELSE [ok |-> FALSE, uris |-> <<>>, key |-> <<>>]                          \* a key chunk is not a URI
      ELSE Read(ls, i + 1, "k", us, IF l.t = "key" THEN Append(ks, l.v) ELSE ks)      \* white space is dropped, the rest is the key
Parsed == Read(Lines, 1, "c", <<>>, <<>>)
RenderParse == IF chunks = 0 THEN ~Parsed.ok
               ELSE Parsed.ok /\ Parsed.uris = uris /\ Parsed.key = [i \in 1..chunks |-> i]
\* ---- prefer_https
Https(us) == SelectSeq(us, IsHttps)
Rsyncs(us) == SelectSeq(us, LAMBDA u : ~IsHttps(u))
Preferred(us) == Https(us) \o Rsyncs(us)
PreferHttps == LET p == Preferred(uris) IN
                 /\ Len(p) = Len(uris)
                 /\ \A i, j \in 1..Len(p) : (i < j /\ IsHttps(p[j])) => IsHttps(p[i])
=============================================================================
