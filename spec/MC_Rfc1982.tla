---------------------------- MODULE MC_Rfc1982 ----------------------------
EXTENDS Rfc1982, Json
\* one replay case per distinct state: the pair, the spec's verdicts and the
\* sums for the boundary increments
Case == [w |-> W, a |-> a, b |-> b, cmp |-> Cmp(a, b), rcmp |-> Cmp(b, a),
         adds |-> [n \in {1, Half - 1} |-> Add(a, n)]]
Emit == PrintT(<<"REPLAY", ToJson(Case)>>)
Wire == W % 8 = 0 => /\ FromBe(BeBytes(a, Len8)) = a
                     /\ Len(BeBytes(a, Len8)) = Len8
=============================================================================
