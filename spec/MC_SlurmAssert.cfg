CONSTANT MaxAssert = 2
SPECIFICATION Spec
INVARIANTS YieldsEach RoundTrip Emit
CHECK_DEADLOCK FALSE
