SPECIFICATION Spec
CONSTANTS Sites = 12
Variants = 3
MaxMuts = 1
INVARIANTS TypeOk CapImpliesRed ConversionTotal Emit EmitCapRed EmitShapes
PROPERTY Terminates
VIEW view
CHECK_DEADLOCK FALSE
