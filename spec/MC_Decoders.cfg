SPECIFICATION Spec
CONSTANTS Sites = 12
Variants = 3
MaxMuts = 1
INVARIANTS TypeOk CapImpliesRed Emit EmitCapRed
PROPERTY Terminates
VIEW view
CHECK_DEADLOCK FALSE
