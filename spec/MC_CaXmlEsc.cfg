SPECIFICATION ESpec
CONSTANT MaxLen = 4
INVARIANTS Incremental RoundTrip AttrCoversPcdata Emit
CHECK_DEADLOCK FALSE
