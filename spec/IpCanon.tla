------------------------------ MODULE IpCanon ------------------------------
(***************************************************************************)
(* Range -> prefix decomposition and "expressible as a prefix" over a      *)
(* W-bit address space.  ToPrefixes transcribes AddressRange::             *)
(* to_v4_prefixes / to_v6_prefixes (ipres.rs) using trailing-zeros,        *)
(* differing-bits and trailing-ones written arithmetically; IsPrefixRng    *)
(* transcribes AddressRange::into_prefix.  Laws: the decomposition is      *)
(* ascending, disjoint, aligned, covers exactly the range and is minimal.  *)
(***************************************************************************)
EXTENDS Naturals, Sequences, FiniteSets, TLC, Json
CONSTANT W
N == 2^W
Addrs == 0..(N - 1)
MinOf(S) == CHOOSE x \in S : \A y \in S : x <= y

TZ(x) == IF x = 0 THEN W ELSE CHOOSE k \in 0..W : x % (2^k) = 0 /\ (k = W \/ x % (2^(k + 1)) # 0)
TOnes(x) == CHOOSE k \in 0..W : (x + 1) % (2^k) = 0 /\ (k = W \/ (x + 1) % (2^(k + 1)) # 0)
\* W - leading_zeros(a xor b): bits needed to tell a and b apart
DiffBits(a, b) == MinOf({k \in 0..W : a \div (2^k) = b \div (2^k)})

RECURSIVE ToPrefixesR(_, _, _)
ToPrefixesR(start, end, acc) ==
    IF start > end THEN acc
    ELSE LET host == TZ(start)
             ma0  == DiffBits(start, end)
             ma   == IF TOnes(end) < ma0 THEN ma0 - 1 ELSE ma0
             same == IF host < ma THEN host ELSE ma
             p    == <<start, W - same>>                 \* <<address, prefix length>>
             acc2 == Append(acc, p)
         IN IF start + 2^same - 1 = end THEN acc2
            ELSE ToPrefixesR(start + 2^same, end, acc2)
ToPrefixes(lo, hi) == ToPrefixesR(lo, hi, <<>>)

PfxRange(p) == p[1]..(p[1] + 2^(W - p[2]) - 1)
Aligned(p)  == p[1] % (2^(W - p[2])) = 0 /\ p[2] \in 0..W

\* into_prefix: len = leading_zeros(min xor max); ok iff Prefix(min,len).range() = (min,max)
IsPrefixRng(lo, hi) ==
    LET len == W - DiffBits(lo, hi)
        size == 2^(W - len)
        base == (lo \div size) * size
    IN base = lo /\ base + size - 1 = hi

\* the property's reading: a range is a prefix iff its size is a power of two and it is aligned
IsPrefixAbs(lo, hi) == \E k \in 0..W : hi - lo + 1 = 2^k /\ lo % (2^k) = 0

RECURSIVE MinCount(_, _)
MinCount(lo, hi) == IF IsPrefixAbs(lo, hi) THEN 1
                    ELSE MinOf({MinCount(lo, m) + MinCount(m + 1, hi) : m \in lo..(hi - 1)})

VARIABLES lo, hi
vars == <<lo, hi>>
Init == lo = 0 /\ hi = 0
Grow   == hi < N - 1 /\ hi' = hi + 1 /\ lo' = lo
Shrink == lo < hi /\ lo' = lo + 1 /\ hi' = hi
Jump   == \E a \in Addrs : lo' = a /\ hi' = a
Next == Grow \/ Shrink \/ Jump
Spec == Init /\ [][Next]_vars

Out == ToPrefixes(lo, hi)
Covers     == UNION {PfxRange(Out[i]) : i \in 1..Len(Out)} = lo..hi
AllAligned == \A i \in 1..Len(Out) : Aligned(Out[i])
Ascending  == \A i \in 1..(Len(Out) - 1) : Out[i][1] + 2^(W - Out[i][2]) = Out[i + 1][1]
Minimal    == W <= 3 => Len(Out) = MinCount(lo, hi)
PrefixIff  == IsPrefixRng(lo, hi) <=> IsPrefixAbs(lo, hi)
SingleIff  == (Len(Out) = 1) <=> IsPrefixAbs(lo, hi)
Emit == PrintT(<<"REPLAY", ToJson([op |-> "prefixes", w |-> W, lo |-> lo, hi |-> hi, exp |-> Out,
                                   is_prefix |-> IsPrefixAbs(lo, hi)])>>)
=============================================================================
