SPECIFICATION Spec
INVARIANTS RoundTrip OtherTag RejectBad Emit
CHECK_DEADLOCK FALSE
