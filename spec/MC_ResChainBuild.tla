------------------------- MODULE MC_ResChainBuild -------------------------
(* Push machine: a user collects blocks one at a time, in any order, with   *)
(* overlaps, duplicates and adjacency; every prefix of every sequence is a  *)
(* state.  Law: the collected chain is the canonical chain of the union.    *)
EXTENDS ResChain, Json
CONSTANT MaxLen
VARIABLE inp
Init == inp = <<>>
Push == Len(inp) < MaxLen /\ \E b \in Blk : inp' = Append(inp, b)
Next == Push
Spec == Init /\ [][Next]_inp

Out == FromIter(inp)
Want == UNION {DenB(inp[i]) : i \in 1..Len(inp)}
BuildLaw == Out = Canon(Want) /\ IsCanon(Out) /\ Den(Out) = Want
MemberLaw == \A x \in Pt : ContainsItem(Out, x) <=> x \in Want
CanonIsCanon == IsCanon(Canon(Want)) /\ Den(Canon(Want)) = Want
\* inverted blocks (lo > hi) denote nothing and never occur in a canonical chain;
\* they are offered to the parsers as a separate input class (emitted once)
BadBlk == {b \in Pt \X Pt : b[1] > b[2]}
BadLaw == \A b \in BadBlk : DenB(b) = {} /\ ~IsCanon(<<b>>)
EmitBad == inp = <<>> => \A b \in BadBlk :
             PrintT(<<"REPLAY", ToJson([op |-> "inverted", b |-> b, top |-> Top])>>)
Emit == PrintT(<<"REPLAY", ToJson([op |-> "from_iter", in |-> inp, exp |-> Out, top |-> Top])>>)
=============================================================================
