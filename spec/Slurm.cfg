CONSTANTS MaxFilters = 2 Wb = 2
SPECIFICATION Spec
INVARIANTS DropLaw EmptyMatchesNothing Emit
PROPERTY Monotone
CHECK_DEADLOCK FALSE
