------------------------------- MODULE CaXmlEsc -------------------------------
(* The escaping machine of CaXml (part 1): the writer appends one character at a time. *)
EXTENDS CaXml
CONSTANT MaxLen
VARIABLES mode, value, raw
evars == <<mode, value, raw>>
EInit == mode \in Modes /\ value = <<>> /\ raw = <<>>
AppendChar(c) == /\ Len(value) < MaxLen
                 /\ value' = Append(value, c)
                 /\ raw' = raw \o Rep(mode, c)
                 /\ UNCHANGED mode
ENext == \E c \in Alphabet : AppendChar(c)
ESpec == EInit /\ [][ENext]_evars
\* the writer's incremental output is the escaped value ...
Incremental == raw = Esc(mode, value)
\* ... which is well-formed where it stands and reads back as the value
RoundTrip == Read(mode, raw) = value
\* attribute escaping is at least as strong as PCDATA escaping (an attribute-escaped value is fine as text)
AttrCoversPcdata == Read("pcdata", Esc("attr", value)) = value
=============================================================================
