--------------------------- MODULE RtrClientStream ---------------------------
(***************************************************************************)
(* The RTR client as a reader of what a cache sends (src/rtr/client.rs:     *)
(* Client::update / serial / reset, FirstSerialReply::read,                 *)
(* FirstResetReply::read, check_version; the PDU readers themselves are     *)
(* RtrLayout's Need table).  RtrWire says what one reader does with one     *)
(* header; this module says what the *session* does with a whole reply:     *)
(* "wrong version" only means something relative to the version the two     *)
(* ends have settled on, "wrong type" relative to the place in the reply.   *)
(*                                                                         *)
(* The cache speaks version sv and answers every query with a reply that    *)
(* conforms (Cache Response, the payload PDUs that version carries, End of  *)
(* Data; Cache Reset to a serial query; an Unsupported Protocol Version     *)
(* error to the first query of a client that asked with a higher version)   *)
(* or that deviates in exactly one place: one PDU's version, type or length *)
(* field, or the stream ends early (between two PDUs, inside a header,      *)
(* inside a body).  Between two exchanges the client waits for the refresh  *)
(* timer or a Serial Notify, which may deviate too.                         *)
(*                                                                         *)
(* The reader is transcribed one PDU at a time (ReadFirst / ReadNext /      *)
(* Wait).  Laws: a step that succeeds consumed no deviating PDU             *)
(* (OkMeansClean); a conforming conversation is never refused               *)
(* (ErrMeansDirty); the reader stops at the deviating PDU (StopsAtBad);     *)
(* the version never changes once settled (VersionStable); every step ends  *)
(* (Terminates).  CheckAll = FALSE is the code before fix "check the        *)
(* version of Cache Reset and Serial Notify": OkMeansClean fails.           *)
(***************************************************************************)
EXTENDS RtrLayout
CONSTANTS MaxDev,        \* deviations per conversation
          MaxSteps,      \* update() calls per conversation
          CheckAll,      \* TRUE: every PDU the client reads has its version checked
          Splits,        \* octet counts k: a Serial Notify of which only the first k octets arrive before the refresh timer fires
          CancelSafe     \* TRUE: the octets read before the timer fired still count; FALSE (the code: timeout_at drops the
                         \* SerialNotify::read future and the octets it had taken with it): the rest is read as a header
NoneV == 9
InitialVersion == 2
\* ot / body: the PDU this started as and the octets of its body really on the wire (deviations change header fields only)
P(t, v, len) == [t |-> t, v |-> v, len |-> len, code |-> 0, ot |-> t, body |-> len - 8]
\* the true size of the PDUs the harness writes: router key with 4 octets of key info, ASPA with two providers
TrueLen(t, v) == CASE t = 3 -> 8 [] t = 4 -> 20 [] t = 6 -> 32 [] t = 7 -> (IF v = 0 THEN 12 ELSE 24) [] t = 8 -> 8
                   [] t = 9 -> 36 [] t = 11 -> 20 [] t = 0 -> 12 [] t = 10 -> 16 [] t = 1 -> 12 [] OTHER -> 8
PayloadTypes(v) == <<4, 6>> \o (IF v >= 1 THEN <<9>> ELSE <<>>) \o (IF v >= 2 THEN <<11>> ELSE <<>>)
Data(v) == LET b == PayloadTypes(v)  n == Len(b) + 2 IN
           [i \in 1..n |-> LET t == IF i = 1 THEN 3 ELSE IF i = n THEN 7 ELSE b[i - 1] IN P(t, v, TrueLen(t, v))]
CacheReset(v) == << P(8, v, 8) >>
Downgrade(v) == << [P(10, v, 16) EXCEPT !.code = 4] >>
Notify(v) == P(0, v, 12)

\* ---- deviations: values the layout (RtrLayout!Need) or the session refuses at once
WrongLens(t, v) == CASE t = 3 -> {7, 9} [] t = 4 -> {19, 21, 32} [] t = 6 -> {31, 33, 20}
                     [] t = 7 -> {IF v = 0 THEN 24 ELSE 12, 8} [] t = 8 -> {12} [] t = 9 -> {31, 8}
                     [] t = 11 -> {21, 22, 8} [] t = 0 -> {8, 13} [] OTHER -> {}
\* types that have no place at that position of a reply (5 is not a PDU type at all)
WrongTypes(first, rt) == IF first THEN {0, 1, 2, 4, 6, 7, 9, 11, 5} \cup (IF rt = "reset" THEN {8} ELSE {})
                         ELSE {0, 1, 2, 3, 8, 10, 5}
\* the versions that are wrong for PDU i of a reply, given what the client has settled on
WrongVers(c, s, i) == IF c = NoneV /\ i = 1 THEN {3} ELSE (0..3) \ {IF c = NoneV THEN s ELSE c}
\* the layout model agrees that every wrong length is refused by the reader that meets it
ASSUME \A v \in 0..2 : \A t \in {4, 6, 7, 9, 11} : \A l \in WrongLens(t, v) : Need(<<"payload", "">>, t, v, l) = ErrN
ASSUME \A l \in WrongLens(3, 0) : Need(<<"p", "k3">>, 3, 0, l) = ErrN
ASSUME \A l \in WrongLens(8, 0) : Need(<<"p", "k8">>, 8, 0, l) = ErrN
ASSUME \A l \in WrongLens(0, 0) : Need(<<"t", "k0">>, 0, 0, l) = ErrN
DevSet(r, c, s, rt) ==
    UNION { { <<i, [r[i] EXCEPT !.v = w]>> : w \in WrongVers(c, s, i) }
            \cup { <<i, [r[i] EXCEPT !.len = l]>> : l \in WrongLens(r[i].t, r[i].v) }
            \cup { <<i, [r[i] EXCEPT !.t = t, !.code = 0]>> : t \in WrongTypes(i = 1, rt) }
            \cup (IF i = 1 THEN { <<i, [P(10, r[i].v, 16) EXCEPT !.code = 2]>> } ELSE {})
          : i \in 1..Len(r) }

\* what may arrive instead of a Serial Notify of the session's version while the client waits
NotifyDevs(c) == { [Notify(c) EXCEPT !.v = w] : w \in (0..3) \ {c} } \cup { [Notify(c) EXCEPT !.len = l] : l \in WrongLens(0, c) }
                 \cup { [Notify(c) EXCEPT !.t = t] : t \in {1, 2, 3, 4, 7, 8, 10, 5} }

 \* ---- the same said of ANY reply (used for recorded conversations, where the cache's deviations are not drawn from DevSet):
\* which PDU of a reply is the first the session must refuse, and whether the reply is whole
VerOkFirst(c, v) == IF c # NoneV THEN v = c ELSE v <= InitialVersion
OkFirst(p, c, rt) == \/ p.t = 3 /\ p.len = 8 /\ VerOkFirst(c, p.v)
                     \/ p.t = 8 /\ rt = "serial" /\ p.len = 8 /\ VerOkFirst(c, p.v)
                     \/ p.t = 10 /\ p.code = 4 /\ p.len = 16 /\ c = NoneV /\ p.v < InitialVersion
OkNext(p, c1) == p.t \in {4, 6, 9, 11, 7} /\ Need(<<"payload", "">>, p.t, p.v, p.len) # ErrN /\ p.v = c1
SettledBy(r, c) == IF c # NoneV THEN c ELSE r[1].v
FirstWrong(r, c, rt) ==
    IF r = <<>> THEN 0 ELSE IF ~OkFirst(r[1], c, rt) THEN 1
    ELSE IF r[1].t # 3 THEN (IF Len(r) > 1 THEN 2 ELSE 0)
    ELSE LET W == {i \in 2..Len(r) : ~OkNext(r[i], SettledBy(r, c)) \/ (\E k \in 2..(i - 1) : r[k].t = 7)} IN
         IF W = {} THEN 0 ELSE CHOOSE i \in W : \A j \in W : i <= j
Whole(r) == r # <<>> /\ (IF r[1].t = 3 THEN r[Len(r)].t = 7 ELSE Len(r) = 1)
Clean(r, c, rt) == FirstWrong(r, c, rt) = 0 /\ Whole(r)

VARIABLES sv,          \* the version the cache speaks
          cv,          \* the version the client has settled on (NoneV: not yet)
          hasState,    \* the client knows a session and serial (the next query is a serial query)
          phase,       \* "idle" | "query" | "first" | "next" | "err"
          route,       \* "reset" | "serial": the query the current reply answers
          resp,        \* the PDUs of the current reply still on the wire, first one next
          tail,        \* octets of one more PDU that arrive before the stream ends (0: the stream stays up after resp)
          ends,        \* the stream ends after resp (and tail)
          pos,         \* PDUs of this reply consumed
          steps,       \* update() calls finished or under way
          devs, dirty, badAt,
          delivered,   \* payload items handed to the update of the current step
          shifted,     \* the reader's idea of where PDUs start is off (octets of a half-read PDU were dropped)
          startState,  \* the client was created with a known session and serial (history)
          hist,        \* what the cache wrote, segment by segment (history)
          verdicts     \* outcome of each finished step: <<"ok", items>> / <<"err", 0>>  (history)
vars == <<sv, cv, hasState, phase, route, resp, tail, ends, pos, steps, devs, dirty, badAt, delivered, shifted, startState, hist, verdicts>>

Init == /\ sv \in 0..2 /\ cv = NoneV /\ hasState \in BOOLEAN /\ phase = "idle" /\ route = "reset" /\ resp = <<>>
        /\ tail = 0 /\ ends = FALSE /\ pos = 0 /\ steps = 0 /\ devs = 0 /\ dirty = FALSE /\ badAt = 0 /\ delivered = 0
        /\ shifted = FALSE /\ startState = hasState /\ hist = <<>> /\ verdicts = <<>>
Seg(kind, pdus, tl, e) == [kind |-> kind, pdus |-> pdus, tail |-> tl, ends |-> e]

\* ---- between two exchanges: Client::update waits for the refresh timer or reads a Serial Notify
StartFirst == /\ phase = "idle" /\ steps = 0 /\ steps' = 1 /\ phase' = "query" /\ delivered' = 0
              /\ UNCHANGED <<shifted, startState, sv, cv, hasState, route, resp, tail, ends, pos, devs, dirty, badAt, hist, verdicts>>
WaitOutcome(p) == IF p.t = 0 /\ p.len = 12 /\ (CheckAll => p.v = cv) THEN "query" ELSE "err"
Wait == /\ phase = "idle" /\ steps >= 1 /\ steps < MaxSteps /\ ~ends
        /\ steps' = steps + 1 /\ delivered' = 0
        /\ \/ /\ phase' = "query"                                        \* the refresh timer fires, nothing arrived
              /\ UNCHANGED <<dirty, devs, badAt, hist, verdicts, shifted>>
           \/ \E p \in {Notify(cv)} \cup (IF devs < MaxDev THEN NotifyDevs(cv) ELSE {}) :
                /\ dirty' = (dirty \/ p # Notify(cv)) /\ devs' = devs + (IF p # Notify(cv) THEN 1 ELSE 0)
                /\ badAt' = (IF p # Notify(cv) THEN 1 ELSE 0)
                /\ hist' = Append(hist, Seg("wait", <<p>>, 0, FALSE))
                /\ phase' = WaitOutcome(p)
                /\ verdicts' = (IF WaitOutcome(p) = "err" THEN Append(verdicts, <<"err", 0>>) ELSE verdicts)
                /\ shifted' = shifted
           \/ \E k \in Splits :                                        \* a Serial Notify in two pieces, the timer fires in between
                /\ hist' = Append(hist, Seg("split", <<Notify(cv)>>, k, FALSE))
                /\ phase' = "query" /\ shifted' = ~CancelSafe
                /\ UNCHANGED <<dirty, devs, badAt, verdicts>>
        /\ pos' = 0
        /\ UNCHANGED <<startState, sv, cv, hasState, route, resp, tail, ends>>

\* ---- the client writes its query; the cache picks its reply
Conforming(rt) == {Data(sv)} \cup (IF rt = "serial" THEN {CacheReset(sv)} ELSE {})
                  \cup (IF cv = NoneV /\ sv < InitialVersion THEN {Downgrade(sv)} ELSE {})
Query == /\ phase = "query"
         /\ LET rt == IF hasState THEN "serial" ELSE "reset" IN
            /\ route' = rt
            /\ \E r \in Conforming(rt) :
                 \/ /\ resp' = r /\ tail' = 0 /\ ends' = FALSE                     \* as it should be
                    /\ UNCHANGED <<devs, dirty, badAt>>
                 \/ /\ devs < MaxDev                                                \* one PDU deviates
                    /\ \E d \in DevSet(r, cv, sv, rt) :
                         /\ resp' = [r EXCEPT ![d[1]] = d[2]] /\ badAt' = d[1]
                    /\ tail' = 0 /\ ends' = FALSE /\ devs' = devs + 1 /\ dirty' = TRUE
                 \/ /\ devs < MaxDev                                                \* the stream ends early
                    /\ \E k \in 0..(Len(r) - 1), tl \in {0, 4, 10} :
                         /\ tl < r[k + 1].len
                         /\ resp' = SubSeq(r, 1, k) /\ tail' = tl /\ ends' = TRUE /\ badAt' = k + 1
                    /\ devs' = devs + 1 /\ dirty' = TRUE
         /\ hist' = Append(hist, Seg("reply", resp', tail', ends'))
         /\ phase' = "first" /\ pos' = 0
         /\ UNCHANGED <<shifted, startState, sv, cv, hasState, steps, delivered, verdicts>>

\* ---- the reader
Fail == /\ phase' = "err" /\ verdicts' = Append(verdicts, <<"err", 0>>)
CheckVersion(v) == IF cv # NoneV THEN v = cv ELSE v <= InitialVersion
Settle(v) == cv' = (IF cv = NoneV THEN v ELSE cv)
ReadFirst ==
    /\ phase = "first"
    /\ IF resp = <<>> \/ shifted THEN Fail /\ UNCHANGED <<cv, hasState, pos, delivered>>   \* end of stream / not a header
       ELSE LET p == resp[1] IN
         /\ pos' = 1
         /\ CASE p.t = 3 /\ p.len = 8 /\ CheckVersion(p.v)
                   -> /\ Settle(p.v) /\ phase' = "next" /\ UNCHANGED <<hasState, delivered, verdicts>>
              [] p.t = 8 /\ route = "serial" /\ p.len = 8 /\ (CheckAll => CheckVersion(p.v))
                   -> \* the cache has lost the session: forget the state, ask again with a reset query (same update() call)
                      /\ hasState' = FALSE /\ phase' = "query" /\ (IF CheckAll THEN Settle(p.v) ELSE cv' = cv)
                      /\ UNCHANGED <<delivered, verdicts>>
              [] p.t = 10 /\ p.code = 4 /\ p.len = 16 /\ cv = NoneV /\ p.v < InitialVersion
                   -> /\ cv' = p.v /\ phase' = "query" /\ UNCHANGED <<hasState, delivered, verdicts>>
              [] OTHER -> Fail /\ UNCHANGED <<cv, hasState, delivered>>
    /\ UNCHANGED <<shifted, startState, sv, route, resp, tail, ends, steps, devs, dirty, badAt, hist>>
ReadNext ==
    /\ phase = "next"
    /\ IF pos >= Len(resp) THEN Fail /\ UNCHANGED <<cv, hasState, pos, delivered, steps>>   \* end of stream before End of Data
       ELSE LET p == resp[pos + 1]  n == Need(<<"payload", "">>, p.t, p.v, p.len) IN
         /\ pos' = pos + 1
         /\ IF n = ErrN \/ ~CheckVersion(p.v) THEN Fail /\ UNCHANGED <<cv, hasState, delivered>>
            ELSE IF p.t = 7
                 THEN /\ hasState' = TRUE /\ phase' = "idle" /\ verdicts' = Append(verdicts, <<"ok", delivered>>)
                      /\ UNCHANGED <<cv, delivered>>
                 ELSE /\ delivered' = delivered + 1 /\ UNCHANGED <<cv, hasState, phase, verdicts>>
    /\ UNCHANGED <<shifted, startState, sv, route, resp, tail, ends, steps, devs, dirty, badAt, hist>>
Next == StartFirst \/ Wait \/ Query \/ ReadFirst \/ ReadNext
Spec == Init /\ [][Next]_vars /\ WF_vars(Next)

\* ---- laws
Done == phase = "err" \/ (phase = "idle" /\ (steps = MaxSteps \/ ends))
OkMeansClean  == (phase = "idle" /\ steps > 0) => ~dirty
ErrMeansDirty == phase = "err" => dirty
\* the reader stops at the deviating PDU: everything before it was consumed, nothing after it
StopsAtBad    == (phase = "err" /\ badAt > 0 /\ pos > 0) => pos = badAt \/ (pos = badAt - 1 /\ badAt = Len(resp) + 1)
VersionStable == [][cv # NoneV => cv' = cv]_vars
SettledIsCache == cv # NoneV /\ ~dirty => cv = sv
\* the two ways of saying "deviates" agree: the PDU a deviation was put into is the first the session must refuse
DevIsWrong == (phase = "first" /\ pos = 0) =>
                 IF ~dirty THEN Clean(resp, cv, route)
                 ELSE IF ends THEN FirstWrong(resp, cv, route) = 0 /\ ~Whole(resp)
                 ELSE FirstWrong(resp, cv, route) = badAt
Terminates == <>Done
=============================================================================
