------------------------------ MODULE XmlLimit ------------------------------
(***************************************************************************)
(* The byte budget of the XML reader (src/xml/decode.rs: BufReadCounter,    *)
(* Reader::reset_and_limit and the *_with_limit methods the RRDP parsers    *)
(* call at the root element and at every child element).                    *)
(*   ResetAndLimit(l)  a parser is about to read the next element           *)
(*   Fill              the XML tokenizer asks for buffered bytes; refused   *)
(*                     when a limit is set and the trip is over it          *)
(*   Consume(n)        the tokenizer has used n of the exposed bytes        *)
(* The document is a sequence of elements [size, limit]; size Inf models    *)
(* an endless attribute value / text / whitespace run.  The inner reader    *)
(* exposes at most B bytes per fill.                                        *)
(***************************************************************************)
EXTENDS Naturals, Sequences, TLC
CONSTANTS B,            \* capacity of the inner buffer
          Doc,          \* sequence of [size |-> bytes in the element, lim |-> budget the parser sets for it]
          Inf           \* a size standing for "never ends"
VARIABLES trip, limit,  \* BufReadCounter
          buf,          \* bytes exposed by the inner reader, not yet consumed
          pulled,       \* bytes taken from the underlying stream so far
          used,         \* bytes consumed so far
          elem, left,   \* current element and how many of its bytes are still to consume
          start,        \* value of `used` when the current element started
          phase         \* "run" | "refused" | "done"
vars == <<trip, limit, buf, pulled, used, elem, left, start, phase>>
Init == /\ trip = 0 /\ limit = 0 /\ buf = 0 /\ pulled = 0 /\ used = 0
        /\ elem = 0 /\ left = 0 /\ start = 0 /\ phase = "run"
\* a parser method with a limit: reset the trip, set the limit, move on to the next element
ResetAndLimit == /\ phase = "run" /\ left = 0 /\ elem < Len(Doc)
                 /\ elem' = elem + 1 /\ left' = Doc[elem + 1].size
                 /\ trip' = 0 /\ limit' = Doc[elem + 1].lim /\ start' = used
                 /\ UNCHANGED <<buf, pulled, used, phase>>
Finish == /\ phase = "run" /\ left = 0 /\ elem = Len(Doc) /\ phase' = "done"
          /\ UNCHANGED <<trip, limit, buf, pulled, used, elem, left, start>>
Over == limit > 0 /\ trip > limit
Fill == /\ phase = "run" /\ left > 0 /\ buf = 0
        /\ IF Over THEN phase' = "refused" /\ UNCHANGED <<buf, pulled>>
           ELSE \E n \in 1..B : buf' = n /\ pulled' = pulled + n /\ phase' = phase
        /\ UNCHANGED <<trip, limit, used, elem, left, start>>
Consume == /\ phase = "run" /\ left > 0 /\ buf > 0
           /\ \E n \in 1..buf :
                /\ n <= left
                /\ buf' = buf - n /\ trip' = trip + n /\ used' = used + n
                /\ left' = IF left = Inf THEN Inf ELSE left - n
           /\ UNCHANGED <<limit, pulled, elem, start, phase>>
Next == ResetAndLimit \/ Finish \/ Fill \/ Consume
Spec == Init /\ [][Next]_vars /\ WF_vars(Next)
\* every byte is consumed under a limit that was reset at the start of its element
Budgeted == (elem > 0) => (limit > 0 /\ trip = used - start)
TripBound == limit > 0 => trip <= limit + B
\* never more than limit + one buffer is read beyond the start of the element being parsed
ReadBound == elem > 0 => pulled - start <= limit + 2 * B
UsedBound == elem > 0 => used - start <= limit + B
\* an element larger than its budget (plus one buffer) is refused; it never completes
Refuses == \A i \in 1..Len(Doc) : Doc[i].size > Doc[i].lim + B => [](elem = i => phase # "done")
EndlessRefused == (\E i \in 1..Len(Doc) : Doc[i].size = Inf) => <>(phase = "refused")
=============================================================================
