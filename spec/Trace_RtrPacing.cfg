CONSTANTS
  Refresh = 20000
  Patience = 10000
  MaxTime = 2000000000
  MaxNotify = 1000000
  SkipsCrossing = FALSE
SPECIFICATION TraceSpec
INVARIANTS OneOutstanding NeverLate
POSTCONDITION TraceAccepted
CHECK_DEADLOCK FALSE
