CONSTANTS
  Refresh = 4
  Patience = 2
  MaxTime = 7
  MaxNotify = 2
  SkipsCrossing = TRUE
SPECIFICATION Spec
INVARIANTS OneOutstanding NeverLate NoFailure
PROPERTIES Paced Progress
CHECK_DEADLOCK FALSE
