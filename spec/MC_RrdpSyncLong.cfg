CONSTANTS Uris = {"u1", "u2"} Datas = {"d1"} MaxHist = 5 Retain = 3 MaxSyncs = 2
SPECIFICATION Spec
VIEW view
INVARIANTS InStep Emit
CHECK_DEADLOCK FALSE
