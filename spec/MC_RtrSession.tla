---------------------------- MODULE MC_RtrSession ----------------------------
EXTENDS RtrSession, Json
\* one replay line per completed behaviour prefix: emitted when a step has just been applied or failed
Emit == (log[Len(log)].a \in {"fail", "lost", "cross"} \/ (log[Len(log)].a = "step" /\ steps = MaxSteps)) =>
          PrintT(<<"REPLAY", ToJson([op |-> "session", cliInit |-> CliInit, srvMax |-> SrvMax, window |-> Window,
                     cliStart |-> CliStart, log |-> log])>>)
=============================================================================
