CONSTANTS
  MaxSupply = 99
  Worlds = {}
SPECIFICATION TraceSpec
INVARIANTS PathBounded PathProper ResourceSafety SignersBound Confluent DoneIsAll
POSTCONDITION TraceAccepted
CHECK_DEADLOCK FALSE
