CONSTANTS W4 = 2 W6 = 3
SPECIFICATION Spec
INVARIANTS RelaxedLaw Emit
CHECK_DEADLOCK FALSE
