---------------------------- MODULE RtaValidation ----------------------------
(***************************************************************************)
(* Multi-signed Resource Tagged Attestations: the validation state machine *)
(* of src/repository/rta.rs (struct Validation, Ca, Chain, CertResources). *)
(*                                                                         *)
(*   Validation::new_at   static checks (every CRL, key, EE, CA is used),  *)
(*                        one chain per signer, each chain advanced over   *)
(*                        the CA certificates embedded in the object       *)
(*   supply_ca / supply_tal  the caller offers CA certificates it has      *)
(*                        validated itself (ResourceCert) or trust anchor  *)
(*                        locators, in any order, any number of times      *)
(*   finalize             every chain validated and the union of the chain *)
(*                        resources equals the attested resources          *)
(*                                                                         *)
(* One action per step of the code: Start = the static part of new_at,     *)
(* AdvanceStep = one turn of the `while let Some(ca) = find_ca` loop,      *)
(* Supply = one public call (its loop over the chains folded, stopping at  *)
(* the first error like the `?`), Finalize.  Resources are sets of atoms   *)
(* of ONE family (the three families are handled by the same code path;    *)
(* the harness realises the atoms in v4, v6, AS numbers or all three).     *)
(*                                                                         *)
(* Named deviations of the code from what one would write down first:      *)
(*   TalIsInert     supply_tal can never validate a chain (a self-signed   *)
(*                  head returns Ok(false), any other head with the TAL's  *)
(*                  key fails inspect_ta)                                  *)
(*   a resource-trimming certificate below an inheriting CA is treated as  *)
(*                  no-overclaim at the next level (cert_resources keeps   *)
(*                  the lower certificate's blocks)                        *)
(*   the advance loop has no visited set: with two embedded CA             *)
(*                  certificates that name each other it does not end      *)
(*                  (property Terminates, configuration MC_RtaCycle)       *)
(***************************************************************************)
EXTENDS Naturals, Sequences, FiniteSets, TLC
CONSTANTS MaxSupply,      \* public supply_* calls per behaviour
          Worlds          \* the attestations explored (records, see MC_RtaValidation)

Atoms == {"a1", "a2", "a3"}
\* the CA certificates the caller can supply (validated elsewhere, C01): key -> resources
ExtRes == [x1 |-> {"a1", "a2"}, x2 |-> {"a2", "a3"}, y |-> Atoms]
ExtKeys == DOMAIN ExtRes
TalKeys == {"t", "r", "m1"}         \* t: the anchor above x1/x2/y; r: an embedded self-signed root; m1: an embedded CA's key
Supplies == [kind : {"ca"}, key : ExtKeys] \cup [kind : {"tal"}, key : TalKeys]

Min(S) == CHOOSE x \in S : \A y \in S : x <= y
ResOf(c) == [inh |-> c.inh, s |-> c.s]
SelfSigned(c) == c.aki = "none" \/ c.aki = c.key

VARIABLES rta,      \* the object: [subj, signers, ees, cas, crls]   (the attested resources are read by finalize only)
          phase,    \* "new" | "advance" | "open" | "accepted" | "rejected" | "failed"
          chains,   \* per signer: [head, cres, chres, validated, path]   (path: ghost, the certificates walked)
          cur,      \* chain being advanced
          usedCa,   \* embedded CA certificates applied to some chain
          base,     \* ghost: the chains as Validation::new_at left them
          supplied, \* ghost: the supplies so far, in order
          hist      \* ghost: one record per public call with its result (what the replay compares)
vars == <<rta, phase, chains, cur, usedCa, base, supplied, hist>>

-----------------------------------------------------------------------------
\* ---- Validation::new_at, static part
RECURSIVE AssignCrls(_, _, _, _)
\* Ca::new for every embedded CA in order: each takes the first CRL not yet taken that names it
AssignCrls(cas, crls, i, used) ==
    IF i > Len(cas) THEN [ok |-> TRUE, map |-> <<>>, used |-> used]
    ELSE LET cand == {j \in 1..Len(crls) : j \notin used /\ crls[j].by = cas[i].key} IN
         IF ~cas[i].live \/ cand = {} THEN [ok |-> FALSE, map |-> <<>>, used |-> used]
         ELSE LET j == Min(cand)
                  r == AssignCrls(cas, crls, i + 1, used \cup {j})
              IN [ok |-> r.ok, map |-> <<j>> \o r.map, used |-> r.used]

RECURSIVE MakeChains(_, _, _, _)
\* Chain::new for every signer info in order: its key is struck from the subject keys, its EE certificate from the EEs
MakeChains(r, k, usedSubj, usedEe) ==
    IF k > Len(r.signers) THEN [ok |-> TRUE, chains |-> <<>>, usedSubj |-> usedSubj, usedEe |-> usedEe]
    ELSE LET sid == r.signers[k]
             sc == {j \in 1..Len(r.subj) : j \notin usedSubj /\ r.subj[j] = sid}
             ec == {j \in 1..Len(r.ees) : j \notin usedEe /\ r.ees[j].key = sid}
         IN IF sc = {} \/ ec = {} THEN [ok |-> FALSE, chains |-> <<>>, usedSubj |-> usedSubj, usedEe |-> usedEe]
            ELSE LET e == r.ees[Min(ec)]
                     rest == MakeChains(r, k + 1, usedSubj \cup {Min(sc)}, usedEe \cup {Min(ec)})
                 IN [ok |-> rest.ok,
                     chains |-> <<[head |-> e, cres |-> ResOf(e), chres |-> ResOf(e), validated |-> FALSE, path |-> <<e>>]>> \o rest.chains,
                     usedSubj |-> rest.usedSubj, usedEe |-> rest.usedEe]

Crls(r) == AssignCrls(r.cas, r.crls, 1, {})
StaticOk(r) == LET a == Crls(r)
                   m == MakeChains(r, 1, {}, {})
               IN /\ \A i \in 1..Len(r.ees) : r.ees[i].live
                  /\ a.ok /\ m.ok
                  /\ m.usedSubj = 1..Len(r.subj)        \* "unused subject keys"
                  /\ a.used = 1..Len(r.crls)            \* "unused CRLs"
                  /\ m.usedEe = 1..Len(r.ees)           \* "unused EE certificates"

Step(op, arg, ok, done) == [op |-> op, arg |-> arg, ok |-> ok, done |-> done]

Init == /\ rta \in Worlds
        /\ phase = "new" /\ chains = <<>> /\ cur = 0 /\ usedCa = {} /\ base = <<>> /\ supplied = <<>> /\ hist = <<>>

Start == /\ phase = "new"
         /\ IF StaticOk(rta)
            THEN /\ chains' = MakeChains(rta, 1, {}, {}).chains
                 /\ phase' = "advance" /\ cur' = 1 /\ hist' = hist
            ELSE /\ phase' = "failed" /\ chains' = chains /\ cur' = cur
                 /\ hist' = Append(hist, Step("new", "static", FALSE, FALSE))
         /\ UNCHANGED <<rta, usedCa, base, supplied>>

\* ---- Chain::advance, one turn of the loop
Named(c) == {j \in 1..Len(rta.cas) : rta.cas[j].key = c.head.aki}
Verifying(c) == {j \in Named(c) : c.head.sig = rta.cas[j].key}
Covered(res, ca) == res.inh \/ ca.inh \/ res.s \subseteq ca.s          \* IpBlocks::verify_covered: an inheriting CA covers everything
Revokes(j, c) == c.head.serial \in rta.crls[Crls(rta).map[j]].revoked
ApplyCa(c, j) ==
    LET ca == rta.cas[j]
        trimmed == IF c.head.trim /\ ~c.chres.inh /\ ~ca.inh THEN [inh |-> FALSE, s |-> c.chres.s \cap ca.s] ELSE c.chres
    IN [head |-> ca,
        cres |-> IF ca.inh THEN c.cres ELSE ResOf(ca),                    \* CertResources::update_head
        chres |-> IF trimmed.inh THEN ResOf(ca) ELSE trimmed,            \* trim_to, then replace_inherited
        validated |-> FALSE,
        path |-> Append(c.path, ca)]

FinishNew == \* after the last chain: "unused CA certificates"
    IF usedCa = 1..Len(rta.cas)
    THEN phase' = "open" /\ hist' = Append(hist, Step("new", "static", TRUE, FALSE))
    ELSE phase' = "failed" /\ hist' = Append(hist, Step("new", "unusedca", FALSE, FALSE))

AdvanceStep ==
    /\ phase = "advance"
    /\ IF cur > Len(chains) THEN FinishNew /\ UNCHANGED <<chains, cur, usedCa>>
       ELSE LET c == chains[cur] IN
       IF SelfSigned(c.head) \/ Named(c) = {}
       THEN \* find_ca = None: this chain is done
            /\ cur' = cur + 1 /\ UNCHANGED <<chains, usedCa, phase, hist>>
       ELSE IF Verifying(c) = {}
       THEN \* "only invalid CA certificates found"
            /\ phase' = "failed" /\ hist' = Append(hist, Step("new", "badca", FALSE, FALSE))
            /\ UNCHANGED <<chains, cur, usedCa>>
       ELSE LET j == Min(Verifying(c)) IN
            IF Revokes(j, c) \/ (~c.head.trim /\ ~Covered(c.cres, rta.cas[j]))
            THEN /\ phase' = "failed" /\ hist' = Append(hist, Step("new", "apply", FALSE, FALSE))
                 /\ UNCHANGED <<chains, cur, usedCa>>
            ELSE /\ chains' = [chains EXCEPT ![cur] = ApplyCa(c, j)]
                 /\ usedCa' = usedCa \cup {j}
                 /\ UNCHANGED <<phase, cur, hist>>
    /\ base' = IF phase' = "open" THEN chains' ELSE base
    /\ UNCHANGED <<rta, supplied>>

\* ---- supply_ca / supply_tal: per chain [ok, chain, done]
SupplyCaOne(c, x) ==
    IF c.validated THEN [ok |-> TRUE, c |-> c, done |-> TRUE]
    ELSE IF c.head.aki = "none" \/ c.head.aki # x \/ c.head.sig # x THEN [ok |-> TRUE, c |-> c, done |-> FALSE]
    ELSE IF ~c.head.trim /\ ~c.cres.inh /\ ~(c.cres.s \subseteq ExtRes[x]) THEN [ok |-> FALSE, c |-> c, done |-> FALSE]   \* verify_issuer
    ELSE LET t == IF c.head.trim /\ ~c.chres.inh THEN [inh |-> FALSE, s |-> c.chres.s \cap ExtRes[x]] ELSE c.chres      \* trim_to_issuer
             r == IF t.inh THEN [inh |-> FALSE, s |-> ExtRes[x]] ELSE t                                                  \* replace_inherited_from_issuer
         IN [ok |-> TRUE, c |-> [c EXCEPT !.chres = r, !.validated = TRUE], done |-> TRUE]
SupplyTalOne(c, k) ==
    IF c.validated THEN [ok |-> TRUE, c |-> c, done |-> TRUE]
    ELSE IF SelfSigned(c.head) \/ c.head.key # k THEN [ok |-> TRUE, c |-> c, done |-> FALSE]
    ELSE [ok |-> FALSE, c |-> c, done |-> FALSE]          \* inspect_ta: the authority key identifier differs from the subject's
One(c, s) == IF s.kind = "ca" THEN SupplyCaOne(c, s.key) ELSE SupplyTalOne(c, s.key)
RECURSIVE Fold(_, _, _)
\* the loop `for chain in &mut self.chains { if !chain.supply(..)? { done = false } }`: chains after a failing one are not touched
Fold(chs, i, s) ==
    IF i > Len(chs) THEN [ok |-> TRUE, chs |-> chs, done |-> TRUE]
    ELSE LET o == One(chs[i], s) IN
         IF ~o.ok THEN [ok |-> FALSE, chs |-> chs, done |-> FALSE]
         ELSE LET r == Fold([chs EXCEPT ![i] = o.c], i + 1, s) IN [ok |-> r.ok, chs |-> r.chs, done |-> o.done /\ r.done]

Supply(s) == /\ phase = "open" /\ Len(supplied) < MaxSupply
             /\ LET r == Fold(chains, 1, s) IN
                  /\ chains' = r.chs
                  /\ phase' = IF r.ok THEN "open" ELSE "failed"
                  /\ hist' = Append(hist, Step(s.kind, s.key, r.ok, r.done))
             /\ supplied' = Append(supplied, s)
             /\ UNCHANGED <<rta, cur, usedCa, base>>

\* ---- finalize
Union == UNION {chains[i].chres.s : i \in 1..Len(chains)}
AllValidated == \A i \in 1..Len(chains) : chains[i].validated
AttChoices == IF AllValidated THEN {Union} \cup {Union \cup {a} : a \in Atoms} \cup {Union \ {a} : a \in Atoms} ELSE {{"a1"}}
Finalize(att) == /\ phase = "open"
                 /\ phase' = IF AllValidated /\ att = Union THEN "accepted" ELSE "rejected"
                 /\ hist' = Append(hist, [op |-> "fin", arg |-> att, ok |-> AllValidated /\ att = Union, done |-> FALSE])
                 /\ UNCHANGED <<rta, chains, cur, usedCa, base, supplied>>

Next == Start \/ AdvanceStep \/ (\E s \in Supplies : Supply(s)) \/ (\E att \in AttChoices : Finalize(att))
Spec == Init /\ [][Next]_vars /\ WF_vars(Start) /\ WF_vars(AdvanceStep)

-----------------------------------------------------------------------------
\* ---- what a caller relies on
Terminal == {"accepted", "rejected", "failed"}
Att == hist[Len(hist)].arg                                  \* meaningful in "accepted" / "rejected"
SuppliedCas == {supplied[i].key : i \in {j \in 1..Len(supplied) : supplied[j].kind = "ca"}}
Top(c) == c.path[Len(c.path)]

\* the walked path really is a path: every certificate is issued (named and signed) by the next, alive and not revoked by it
PathProper == \A i \in 1..Len(chains) : LET p == chains[i].path IN
    /\ chains[i].head = Top(chains[i])
    /\ \A k \in 1..(Len(p) - 1) : /\ p[k].aki = p[k + 1].key /\ p[k].sig = p[k + 1].key /\ p[k + 1].ca /\ p[k].live /\ p[k + 1].live
                                  /\ \E j \in 1..Len(rta.cas) : rta.cas[j] = p[k + 1] /\ p[k].serial \notin rta.crls[Crls(rta).map[j]].revoked

\* the atoms every certificate of the walked path holds (an inheriting certificate holds what its issuer holds) and the validating CA too
Held(c) == {a \in ExtRes[Top(c).aki] : \A k \in 1..Len(c.path) : c.path[k].inh \/ a \in c.path[k].s}

\* RESOURCE SAFETY: an accepted attestation names exactly the resources its signers' chains carry, every chain ends in a CA the
\* caller supplied, and no chain carries an atom that some certificate on its path (or the supplied CA) does not hold
ResourceSafety == phase = "accepted" =>
    /\ Att = Union
    /\ \A i \in 1..Len(chains) : /\ chains[i].validated /\ ~chains[i].chres.inh
                                 /\ Top(chains[i]).aki \in SuppliedCas
                                 /\ chains[i].chres.s \subseteq Held(chains[i])
\* every subject key of the content is bound to exactly one signer, whose certificate opens a chain
SignersBound == phase \in {"open", "accepted", "rejected"} =>
    /\ Len(chains) = Len(rta.signers) /\ Len(rta.subj) = Len(rta.signers)
    /\ \A i \in 1..Len(chains) : chains[i].path[1].key = rta.signers[i] /\ ~chains[i].path[1].ca
    /\ \A k \in 1..Len(rta.subj) : \E i \in 1..Len(rta.signers) : rta.signers[i] = rta.subj[k]
\* schedule independence: while no call has failed, the state is a function of the SET of supplied CAs, whatever the order and repetition
Confluent == phase = "open" => \A i \in 1..Len(chains) :
    LET b == base[i]
        issuer == b.head.aki
    IN chains[i] = IF issuer \in SuppliedCas /\ b.head.sig = issuer THEN SupplyCaOne(b, issuer).c ELSE b
\* the value a supply call returns says whether finalize can succeed as far as the chains go
DoneIsAll == (phase = "open" /\ hist # <<>> /\ hist[Len(hist)].op \in {"ca", "tal"}) => (hist[Len(hist)].done <=> AllValidated)
\* validated chains stay validated and are never touched again
Monotone == [][\A i \in 1..Len(chains) : (i \in 1..Len(chains') /\ chains[i].validated) => chains'[i] = chains[i]]_vars
\* trust anchor locators change nothing (as implemented, see the head of the module)
TalIsInert == [][\A k \in TalKeys : Supply([kind |-> "tal", key |-> k]) => chains' = chains]_vars
\* Validation::new_at returns: no chain is longer than the embedded CA certificates allow (the variant of the advance loop) ...
PathBounded == \A i \in 1..Len(chains) : Len(chains[i].path) <= Len(rta.cas) + 1
\* ... and so the loop ends
Terminates == <>(phase \notin {"new", "advance"})
=============================================================================
