CONSTANTS Chars = {"a", "A", "b", "/", "."} MaxLen = 5
SPECIFICATION Spec
INVARIANTS EqTrans ParentTrans ParentCongr
CHECK_DEADLOCK FALSE
