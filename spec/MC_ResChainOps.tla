-------------------------- MODULE MC_ResChainOps --------------------------
(* Two registers holding arbitrary sets (as canonical chains); a user may    *)
(* toggle any point of either.  Every pair of canonical chains is a state;  *)
(* the laws tie each transcribed operation to its set-theoretic meaning.    *)
EXTENDS ResChain, Json
VARIABLES sa, sb
vars == <<sa, sb>>
Init == sa = {} /\ sb = {}
ToggleA == \E x \in Pt : sa' = (IF x \in sa THEN sa \ {x} ELSE sa \cup {x}) /\ sb' = sb
ToggleB == \E x \in Pt : sb' = (IF x \in sb THEN sb \ {x} ELSE sb \cup {x}) /\ sa' = sa
Next == ToggleA \/ ToggleB
Spec == Init /\ [][Next]_vars
A == Canon(sa)
B == Canon(sb)
TrimLaw    == Trim(A, B) = Canon(sa \cap sb)
DiffLaw    == Difference(A, B) = Canon(sa \ sb)
UnionLaw   == Union(A, B) = Canon(sa \cup sb)
EncLaw     == IsEncompassed(A, B) <=> sa \subseteq sb
EqLaw      == ChainEq(A, B) <=> sa = sb
RefuseLaw  == LET r == VerifyIssued(B, "blocks", A, "refuse") IN
              (r[1] <=> sa \subseteq sb) /\ (r[1] => r[2] = A)
TrimIssLaw == LET r == VerifyIssued(B, "blocks", A, "trim") IN r[1] /\ r[2] = Canon(sa \cap sb)
InheritLaw == VerifyIssued(B, "inherit", <<>>, "refuse") = <<TRUE, B>> /\ VerifyIssued(B, "missing", <<>>, "trim") = <<TRUE, <<>> >>
SubsetLaw  == Den(Trim(A, B)) \subseteq sb       \* resources never grow
Emit == PrintT(<<"REPLAY", ToJson([op |-> "pair", a |-> A, b |-> B,
                   inter |-> Trim(A, B), diff |-> Difference(A, B), union |-> Union(A, B),
                   a_in_b |-> IsEncompassed(A, B), eq |-> ChainEq(A, B), top |-> Top])>>)
=============================================================================
