-------------------------- MODULE Trace_RtaValidation --------------------------
(* Recorded runs of the real rta::Validation on random attestations: every public   *)
(* call (new_at, supply_ca, supply_tal, finalize) with its result must be a step of *)
(* RtaValidation, and every invariant of that specification holds along the way.    *)
(* The steps of the advance loop inside new_at are not logged: they are taken as    *)
(* silent steps of the specification (l unchanged) until the "new" event matches.   *)
EXTENDS RtaValidation, Json, IOUtils, TLCExt
Rec == ndJsonDeserialize(IOEnv.TRACE)
VARIABLE l
AsSet(x) == {x[i] : i \in 1..Len(x)}
CertOf(c) == [key |-> c.key, aki |-> c.aki, sig |-> c.sig, ca |-> c.ca, inh |-> c.inh, s |-> AsSet(c.s), trim |-> c.trim, serial |-> c.serial, live |-> c.live]
WorldOf(w) == [subj |-> w.subj, signers |-> w.signers,
               ees |-> [i \in 1..Len(w.ees) |-> CertOf(w.ees[i])], cas |-> [i \in 1..Len(w.cas) |-> CertOf(w.cas[i])],
               crls |-> [i \in 1..Len(w.crls) |-> [by |-> w.crls[i].by, revoked |-> AsSet(w.crls[i].revoked)]]]
Fresh(w) == /\ rta' = WorldOf(w) /\ phase' = "new" /\ chains' = <<>> /\ cur' = 0 /\ usedCa' = {} /\ base' = <<>> /\ supplied' = <<>> /\ hist' = <<>>
TInit == /\ Rec[1].ev = "world" /\ l = 2 /\ TLCSet(1, 2)
         /\ rta = WorldOf(Rec[1].world) /\ phase = "new" /\ chains = <<>> /\ cur = 0 /\ usedCa = {} /\ base = <<>> /\ supplied = <<>> /\ hist = <<>>
Last == hist'[Len(hist')]
Silent == (Start \/ AdvanceStep) /\ l' = l
Event == /\ l <= Len(Rec)
         /\ LET e == Rec[l] IN
            \/ e.ev = "world" /\ phase \notin {"new", "advance"} /\ Fresh(e.world)
            \/ e.ev = "new" /\ phase \in {"open", "failed"} /\ Len(hist) = 1 /\ hist[1].op = "new" /\ hist[1].ok = e.ok /\ UNCHANGED vars
            \/ e.ev \in {"ca", "tal"} /\ Supply([kind |-> e.ev, key |-> e.key]) /\ Last.ok = e.ok /\ (e.ok => Last.done = e.done)
            \/ e.ev = "fin" /\ Finalize(AsSet(e.att)) /\ Last.ok = e.ok
         /\ l' = l + 1 /\ TLCSet(1, l + 1)
TNext == Silent \/ Event
TraceSpec == TInit /\ [][TNext]_<<l, vars>>
TraceAccepted == IF TLCGet(1) = Len(Rec) + 1 THEN TRUE ELSE Print(<<"TRACE-REJECTED", TLCGet(1)>>, FALSE)
=============================================================================
