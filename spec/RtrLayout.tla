------------------------------ MODULE RtrLayout ------------------------------
(***************************************************************************)
(* RTR wire format (RFC 6810 / 8210 / 8210bis, src/rtr/pdu.rs).            *)
(*  1. The layout table as data: Enc(pdu) is the byte sequence of a PDU    *)
(*     whose fields are given as byte sequences (so full-range values need *)
(*     no big integers); LenOk: the length field equals the bytes written. *)
(*  2. The reader automaton: a reader pulls bytes from a stream that ends  *)
(*     after `avail` bytes; Read delivers 1..k bytes, or 0 at end of       *)
(*     stream.  Need(entry, header) is what the code does after the 8      *)
(*     header bytes.  Safety: never more than max(8, length field) bytes   *)
(*     are consumed; liveness: the reader always finishes (the transcribed *)
(*     skip loop of Error::skip_payload finishes only because a 0-byte     *)
(*     read is an error: SkipStopsAtEof).                                  *)
(***************************************************************************)
EXTENDS Naturals, Sequences, FiniteSets, TLC
B4(n) == <<n \div 16777216, (n \div 65536) % 256, (n \div 256) % 256, n % 256>>    \* n < 2^31
B2(n) == <<n \div 256, n % 256>>
Hdr(ver, type, sess, len) == <<ver, type>> \o sess \o B4(len)
\* ---- layout table: p is a record; byte-sequence fields are already big-endian
Enc(p) ==
    CASE p.t = "serial_notify" -> Hdr(p.ver, 0, p.sess, 12) \o p.serial
      [] p.t = "serial_query"  -> Hdr(p.ver, 1, p.sess, 12) \o p.serial
      [] p.t = "reset_query"   -> Hdr(p.ver, 2, <<0, 0>>, 8)
      [] p.t = "cache_response"-> Hdr(p.ver, 3, p.sess, 8)
      [] p.t = "ipv4"          -> Hdr(p.ver, 4, <<0, 0>>, 20) \o <<p.flags, p.plen, p.mlen, 0>> \o p.addr \o p.asn
      [] p.t = "ipv6"          -> Hdr(p.ver, 6, <<0, 0>>, 32) \o <<p.flags, p.plen, p.mlen, 0>> \o p.addr \o p.asn
      [] p.t = "end_of_data"   -> IF p.ver = 0 THEN Hdr(0, 7, p.sess, 12) \o p.serial
                                  ELSE Hdr(p.ver, 7, p.sess, 24) \o p.serial \o p.refresh \o p.retry \o p.expire
      [] p.t = "cache_reset"   -> Hdr(p.ver, 8, <<0, 0>>, 8)
      [] p.t = "router_key"    -> Hdr(p.ver, 9, <<p.flags, 0>>, 32 + Len(p.info)) \o p.ski \o p.asn \o p.info
      [] p.t = "error"         -> Hdr(p.ver, 10, B2(p.code), 16 + Len(p.pdu) + Len(p.text))
                                    \o B4(Len(p.pdu)) \o p.pdu \o B4(Len(p.text)) \o p.text
      [] p.t = "aspa"          -> Hdr(p.ver, 11, <<p.flags, 0>>, 12 + Len(p.providers)) \o p.customer \o p.providers
LenField(bs) == bs[5] * 16777216 + bs[6] * 65536 + bs[7] * 256 + bs[8]
LenOk(p) == LenField(Enc(p)) = Len(Enc(p))
MinVersion(p) == CASE p.t = "router_key" -> 1 [] p.t = "aspa" -> 2 [] OTHER -> 0

ErrN == 999999       \* "the reader returns an error" (TLC cannot compare a number with a string)
\* ---- what a reader does once it has the header: ErrN or the number of further bytes it will read
\* entry: "payload" (Payload::read), "skip" (header + Error::skip_payload), or one of the three readers the `concrete!` macro gives
\* every fixed-size PDU struct: "t<k>" = read, "y<k>" = try_read (an Error PDU header is handed back as a value after 8 bytes),
\* "p<k>" = read_payload (the caller has read the header; only the length is checked, the type is the caller's business).
\* k: 0 Serial Notify, 1 Serial Query, 2 Reset Query, 3 Cache Response, 4 IPv4 Prefix, 6 IPv6 Prefix, 70 End of Data (version 0
\* layout), 71 End of Data (version 1+ layout), 8 Cache Reset.
Concrete == [k0 |-> <<0, 12>>, k1 |-> <<1, 12>>, k2 |-> <<2, 8>>, k3 |-> <<3, 8>>, k4 |-> <<4, 20>>, k6 |-> <<6, 32>>,
             k70 |-> <<7, 12>>, k71 |-> <<7, 24>>, k8 |-> <<8, 8>>]
Kinds == DOMAIN Concrete
ReaderEntries == {<<r, k>> : r \in {"t", "y", "p"}, k \in Kinds}
StreamEntries == {<<"payload", "">>, <<"skip", "">>}          \* every entry is a pair (TLC compares like with like)
Need(entry, type, ver, len) ==
    IF entry[1] = "payload" THEN
        CASE type = 4  -> IF len = 20 THEN 12 ELSE ErrN
          [] type = 6  -> IF len = 32 THEN 24 ELSE ErrN
          [] type = 9  -> IF len >= 32 THEN len - 8 ELSE ErrN
          [] type = 11 -> IF len >= 12 /\ (len - 12) % 4 = 0 THEN len - 8 ELSE ErrN
          [] type = 7  -> IF ver = 0 THEN (IF len = 12 THEN 4 ELSE ErrN)
                          ELSE IF ver \in {1, 2} THEN (IF len = 24 THEN 16 ELSE ErrN) ELSE ErrN
          [] OTHER -> ErrN
    ELSE IF entry[1] = "skip" THEN (IF len >= 8 THEN len - 8 ELSE ErrN)
    ELSE LET want == Concrete[entry[2]] IN
         CASE entry[1] = "t" -> IF type = want[1] /\ len = want[2] THEN want[2] - 8 ELSE ErrN
           [] entry[1] = "y" -> IF type = 10 THEN 0 ELSE IF type = want[1] /\ len = want[2] THEN want[2] - 8 ELSE ErrN
           [] entry[1] = "p" -> IF len = want[2] THEN want[2] - 8 ELSE ErrN

=============================================================================
