--------------------------- MODULE APA_Rfc1982 ---------------------------
(* Apalache lemma at the real width: for ALL a, b < 2^32 the transcription *)
(* of Serial::partial_cmp equals the RFC 1982 definition, comparison is     *)
(* antisymmetric and addition of 1..2^31-1 yields a strictly greater value. *)
EXTENDS Integers
VARIABLES
    \* @type: Int;
    a,
    \* @type: Int;
    b,
    \* @type: Int;
    n
M == 4294967296
Half == 2147483648
Diff(x, y) == (y - x + M) % M
Cmp(x, y) == LET d == Diff(x, y) IN
    IF d = 0 THEN "eq" ELSE IF d < Half THEN "lt" ELSE IF d > Half THEN "gt" ELSE "none"
ImplCmp(x, y) ==
    IF x = y THEN "eq"
    ELSE IF x < y
         THEN LET sub == y - x IN
              IF sub < Half THEN "lt" ELSE IF sub > Half THEN "gt" ELSE "none"
         ELSE LET sub == x - y IN
              IF sub < Half THEN "gt" ELSE IF sub > Half THEN "lt" ELSE "none"
Flip(r) == IF r = "lt" THEN "gt" ELSE IF r = "gt" THEN "lt" ELSE r
Add(x, k) == (x + k) % M
Init == a \in Nat /\ a < M /\ b \in Nat /\ b < M /\ n \in Nat /\ n >= 1 /\ n < Half
Next == UNCHANGED <<a, b, n>>
Inv == /\ ImplCmp(a, b) = Cmp(a, b)
       /\ Cmp(b, a) = Flip(Cmp(a, b))
       /\ Cmp(a, Add(a, n)) = "lt" /\ Cmp(Add(a, n), a) = "gt"
       /\ Cmp(Add(a, n), Add(b, n)) = Cmp(a, b)
       /\ ((Cmp(a, b) = "none") <=> (Diff(a, b) = Half))
=============================================================================
