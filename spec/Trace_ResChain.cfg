CONSTANT Top = 400
SPECIFICATION TraceSpec
INVARIANT RegsCanon
POSTCONDITION TraceAccepted
CHECK_DEADLOCK FALSE
