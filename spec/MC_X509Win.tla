----------------------------- MODULE MC_X509Win -----------------------------
(* Validity windows over 4 instants and serial numbers over byte classes.    *)
EXTENDS X509Time, Json
Inst == 0..3
Bytes == {0, 1, 127, 128, 255}
VARIABLES nb, na, now, nb2, na2, sa, sb, mode
vars == <<nb, na, now, nb2, na2, sa, sb, mode>>
Sers == UNION {[1..k -> Bytes] : k \in 1..3}
\* two independent sub-machines sharing one module: windows (mode "w") and serial pairs (mode "s")
Init == \/ /\ mode = "w" /\ nb \in Inst /\ na \in Inst /\ now \in Inst /\ nb2 \in Inst /\ na2 \in Inst
           /\ sa = <<0>> /\ sb = <<0>>
        \/ /\ mode = "s" /\ nb = 0 /\ na = 0 /\ now = 0 /\ nb2 = 0 /\ na2 = 0
           /\ sa \in Sers /\ sb \in Sers
Next == UNCHANGED vars
Spec == Init /\ [][Next]_vars
TrimLaw == LET w == TrimW(<<nb, na>>, <<nb2, na2>>) IN
           \A x \in Inst : Within(w[1], w[2], x) <=> (Within(nb, na, x) /\ Within(nb2, na2, x))
DerLaw == LET d == MinimalDer(sa) IN
          /\ NumVal(d) = NumVal(sa) /\ d[1] < 128
          /\ (Len(d) > 1 => ~(d[1] = 0 /\ d[2] < 128))
OrderLaw == (NumVal(sa) < NumVal(sb)) <=>
            LET pa == [i \in 1..(3 - Len(sa)) |-> 0] \o sa  pb == [i \in 1..(3 - Len(sb)) |-> 0] \o sb
                k == IF pa = pb THEN 0 ELSE CHOOSE i \in 1..3 : pa[i] # pb[i] /\ \A j \in 1..(i - 1) : pa[j] = pb[j]
            IN k # 0 /\ pa[k] < pb[k]
Emit == PrintT(<<"REPLAY", ToJson([op |-> IF mode = "w" THEN "window" ELSE "serial", nb |-> nb, na |-> na, now |-> now, nb2 |-> nb2, na2 |-> na2,
             ok |-> Within(nb, na, now), trim |-> TrimW(<<nb, na>>, <<nb2, na2>>),
             sa |-> sa, sb |-> sb, der |-> MinimalDer(sa), dec |-> DecText(NumVal(sa)),
             lt |-> NumVal(sa) < NumVal(sb), eq |-> NumVal(sa) = NumVal(sb)])>>)
=============================================================================
