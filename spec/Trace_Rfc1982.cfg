CONSTANT W = 8
SPECIFICATION TraceSpec
POSTCONDITION TraceAccepted
CHECK_DEADLOCK FALSE
