--------------------------- MODULE MC_RtrServerConn ---------------------------
EXTENDS RtrServerConn, RtrStreams, Json
CONSTANT StreamId
QueriesDef == StreamsDef[StreamId]
\* one environment script per distinct state (the first, i.e. a shortest, behaviour reaching it)
Emit == PrintT(<<"REPLAY", ToJson([op |-> "conn", stream |-> StreamId, queries |-> Queries, script |-> script,
                                   answers |-> Answers(1, Len(Queries), NoneV),
                                   \* Serial Notify PDUs the specification's server has written in this state (a lower bound for the
                                   \* real one once it is idle: pending notifications collapse into one but never into none)
                                   notifies_out |-> Len(SelectSeq(out, LAMBDA e : e[1] = "notify")), closed |-> closed])>>)
=============================================================================
