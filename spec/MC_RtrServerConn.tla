--------------------------- MODULE MC_RtrServerConn ---------------------------
EXTENDS RtrServerConn, RtrStreams, Json
CONSTANT StreamId
QueriesDef == StreamsDef[StreamId]
\* one environment script per distinct state (the first, i.e. a shortest, behaviour reaching it)
Emit == PrintT(<<"REPLAY", ToJson([op |-> "conn", stream |-> StreamId, queries |-> Queries, script |-> script,
                                   answers |-> Answers(1, Len(Queries), NoneV)])>>)
=============================================================================
