--------------------------- MODULE MC_SlurmAssert ---------------------------
EXTENDS SlurmAssert, Json
Emit == PrintT(<<"REPLAY", ToJson([op |-> "assert", alist |-> alist, yield |-> Yield])>>)
=============================================================================
