---------------------------- MODULE RtrServerConn ----------------------------
(***************************************************************************)
(* One RTR server connection (src/rtr/server.rs: Connection::run / recv)   *)
(* at byte granularity.  The client's bytes arrive in arbitrary chunks     *)
(* (Deliver), update notifications arrive at arbitrary moments (Notify);   *)
(* the connection task                                                     *)
(*   SelectNotify  takes a pending notification while waiting for a header *)
(*                 (it wins the select; the partial header must survive)   *)
(*   ReadHeader    consumes what is available of the 8 header bytes        *)
(*   ReadBody      consumes what is available of a serial query's body     *)
(*   Respond       writes one whole response (cache response .. end of     *)
(*                 data, cache reset, or an Error PDU)                     *)
(* A byte is <<q, i>>: byte i of query q of the client's stream, so loss,  *)
(* duplication or reordering is visible.  HeaderSurvives = FALSE is the    *)
(* code before the fix (read_exact future dropped by select).              *)
(***************************************************************************)
EXTENDS Naturals, Sequences, FiniteSets, TLC
CONSTANTS Queries,          \* sequence of [kind, ver]
          MaxNotify,
          HeaderSurvives
NoneV == 9
\* the version octet of a Serial Notify written before any version is negotiated (Connection::version(): unwrap_or(0));
\* the statement only asks that it does not depend on how the bytes arrive - a constant does that
PreVer == 0
QLen(q) == IF Queries[q].kind \in {"serial_ok", "serial_unknown"} THEN 12 ELSE 8
RECURSIVE BytesFrom(_)
BytesFrom(q) == IF q > Len(Queries) THEN <<>> ELSE [i \in 1..QLen(q) |-> <<q, i>>] \o BytesFrom(q + 1)
Stream == BytesFrom(1)

\* ---- Respond: what one query gets, given the connection's version so far: <<entry, new version, closes>>
RespondTo(q, cv) ==
    LET k == Queries[q].kind  v == Queries[q].ver IN
    IF cv # NoneV /\ cv # v THEN << <<"err", q, 8, cv>>, cv, FALSE >>
    ELSE IF cv = NoneV /\ v > 2 THEN << <<"err", q, 4, 2>>, cv, FALSE >>
    ELSE CASE k = "reset"          -> << <<"full", q, v>>, v, FALSE >>
           [] k = "serial_ok"      -> << <<"diff", q, v>>, v, FALSE >>
           [] k = "serial_unknown" -> << <<"creset", q, v>>, v, FALSE >>
           [] k \in {"badlen_reset", "badlen_serial", "unktype"} -> << <<"err", q, 3, v>>, v, FALSE >>
           [] k = "errpdu"         -> << <<"close", q, v>>, v, TRUE >>
\* the answers to the first n queries, as a function of the query bytes alone
RECURSIVE Answers(_, _, _)
Answers(q, n, cv) == IF q > n THEN <<>>
                     ELSE LET r == RespondTo(q, cv) IN
                          IF r[3] THEN <<>> ELSE <<r[1]>> \o Answers(q + 1, n, r[2])
NeedsBody(q, cv) == /\ Queries[q].kind \in {"serial_ok", "serial_unknown"}
                    /\ ~(cv # NoneV /\ cv # Queries[q].ver) /\ ~(cv = NoneV /\ Queries[q].ver > 2)

VARIABLES wire,      \* index of the next byte of Stream not yet delivered
          sock,      \* delivered, not yet consumed
          hdr,       \* header bytes the connection holds
          need,      \* body bytes still to read (0 = reading a header)
          cur,       \* query whose body is being read / whose response is due (0 = none)
          due,       \* TRUE: a complete query awaits its response
          notifyP, notifies,
          connVer, closed,
          eof,       \* the client has closed its side (no more bytes will arrive)
          out,       \* what the server wrote: responses and <<"notify">>
          lost,      \* bytes dropped (history)
          script     \* environment actions so far (history, not in the VIEW)
vars == <<wire, sock, hdr, need, cur, due, notifyP, notifies, connVer, closed, eof, out, lost, script>>
view == <<wire, sock, hdr, need, cur, due, notifyP, notifies, connVer, closed, eof, out, lost>>
Init == /\ wire = 1 /\ sock = <<>> /\ hdr = <<>> /\ need = 0 /\ cur = 0 /\ due = FALSE
        /\ notifyP = 0 /\ notifies = 0 /\ connVer = NoneV /\ closed = FALSE /\ eof = FALSE
        /\ out = <<>> /\ lost = 0 /\ script = <<>>
Deliver == \E n \in 1..(Len(Stream) - wire + 1) :
             /\ ~eof
             /\ sock' = sock \o SubSeq(Stream, wire, wire + n - 1)
             /\ wire' = wire + n
             /\ script' = Append(script, <<"deliver", n>>)
             /\ UNCHANGED <<hdr, need, cur, due, notifyP, notifies, connVer, closed, eof, out, lost>>
Notify == /\ notifies < MaxNotify
          /\ notifies' = notifies + 1 /\ notifyP' = 1           \* broadcast(1): lagging collapses into one
          /\ script' = Append(script, <<"notify", 0>>)
          /\ UNCHANGED <<wire, sock, hdr, need, cur, due, connVer, closed, eof, out, lost>>
SelectNotify == /\ ~closed /\ need = 0 /\ ~due /\ notifyP = 1
                /\ notifyP' = 0
                /\ out' = Append(out, <<"notify", IF connVer = NoneV THEN PreVer ELSE connVer>>)
                /\ IF HeaderSurvives THEN hdr' = hdr /\ lost' = lost
                   ELSE hdr' = <<>> /\ lost' = lost + Len(hdr)
                /\ UNCHANGED <<wire, sock, need, cur, due, notifies, connVer, closed, eof, script>>
Min(a, b) == IF a < b THEN a ELSE b
\* a header is intact iff its 8 bytes are bytes 1..8 of one query
Intact(h) == \A i \in 1..8 : h[i] = <<h[1][1], i>>
ReadHeader == /\ ~closed /\ need = 0 /\ ~due /\ sock # <<>>
              /\ (notifyP = 1 => HeaderSurvives \/ TRUE)
              /\ LET k == Min(Len(sock), 8 - Len(hdr))
                     h == hdr \o SubSeq(sock, 1, k)
                 IN /\ sock' = SubSeq(sock, k + 1, Len(sock))
                    /\ IF Len(h) < 8 THEN hdr' = h /\ UNCHANGED <<need, cur, due, out, closed>>
                       ELSE /\ hdr' = <<>>
                            /\ IF ~Intact(h)
                               THEN /\ out' = Append(out, <<"garbage">>) /\ closed' = TRUE
                                    /\ UNCHANGED <<need, cur, due>>
                               ELSE /\ cur' = h[1][1]
                                    /\ IF NeedsBody(h[1][1], connVer)
                                       THEN need' = 4 /\ due' = FALSE ELSE need' = 0 /\ due' = TRUE
                                    /\ UNCHANGED <<out, closed>>
              /\ UNCHANGED <<wire, notifyP, notifies, connVer, eof, lost, script>>
ReadBody == /\ ~closed /\ need > 0 /\ sock # <<>>
            /\ LET k == Min(Len(sock), need) IN
                 /\ sock' = SubSeq(sock, k + 1, Len(sock))
                 /\ need' = need - k
                 /\ due' = (need - k = 0)
            /\ UNCHANGED <<wire, hdr, cur, notifyP, notifies, connVer, closed, eof, out, lost, script>>
Respond == /\ ~closed /\ due
           /\ LET r == RespondTo(cur, connVer) IN
                /\ connVer' = r[2]
                /\ IF r[3] THEN closed' = TRUE /\ out' = out
                           ELSE closed' = closed /\ out' = Append(out, r[1])
           /\ due' = FALSE /\ cur' = 0
           /\ UNCHANGED <<wire, sock, hdr, need, notifyP, notifies, eof, lost, script>>
\* the client closes; a read at end of stream ends the connection (a partial query is never answered)
ClientClose == /\ ~eof /\ eof' = TRUE /\ script' = Append(script, <<"close", 0>>)
               /\ UNCHANGED <<wire, sock, hdr, need, cur, due, notifyP, notifies, connVer, closed, out, lost>>
ReadEof == /\ ~closed /\ ~due /\ eof /\ sock = <<>> /\ closed' = TRUE
           /\ UNCHANGED <<wire, sock, hdr, need, cur, due, notifyP, notifies, connVer, eof, out, lost, script>>
Next == Deliver \/ Notify \/ ClientClose \/ SelectNotify \/ ReadHeader \/ ReadBody \/ ReadEof \/ Respond
Spec == Init /\ [][Next]_vars /\ WF_vars(SelectNotify) /\ WF_vars(ReadHeader) /\ WF_vars(ReadBody) /\ WF_vars(Respond) /\ WF_vars(ReadEof)

\* ---- the property
NonNotify(s) == SelectSeq(s, LAMBDA e : e[1] # "notify")
\* responses (notifications removed) are exactly the answers to the queries consumed so far, in order
Consumed == IF cur # 0 /\ ~due THEN cur - 1 ELSE IF cur # 0 THEN cur - 1
            ELSE Len(NonNotify(out)) + (IF closed THEN 0 ELSE 0)
AnswersInOrder == LET r == NonNotify(out) IN r = SubSeq(Answers(1, Len(Queries), NoneV), 1, Len(r))
NoLoss == lost = 0
NoGarbage == \A i \in 1..Len(out) : out[i][1] # "garbage"
Quiescent == wire > Len(Stream) /\ sock = <<>> /\ need = 0 /\ ~due /\ notifyP = 0
Complete == (Quiescent /\ ~closed /\ hdr = <<>>) => NonNotify(out) = Answers(1, Len(Queries), NoneV)
NotifyCount == Len(SelectSeq(out, LAMBDA e : e[1] = "notify")) <= notifies
\* one connection, one version: from the first entry that settles the version on, everything written - responses, errors and
\* Serial Notify PDUs alike - carries that version; before that a Serial Notify carries PreVer whatever has arrived so far
Settles(e) == e[1] \in {"full", "diff", "creset"} \/ (e[1] = "err" /\ e[3] \in {3, 8})
VerOf(e) == e[Len(e)]
OneVersion == \A i \in 1..Len(out) :
                 IF \E k \in 1..i : Settles(out[k])
                 THEN LET k0 == CHOOSE k \in 1..i : Settles(out[k]) /\ \A m \in 1..(k - 1) : ~Settles(out[m])
                      IN VerOf(out[i]) = VerOf(out[k0])
                 ELSE out[i][1] = "notify" => out[i][2] = PreVer
\* every query that fully arrives is eventually answered
AllAnswered == <>(closed \/ eof \/ (wire > Len(Stream) => NonNotify(out) = Answers(1, Len(Queries), NoneV)))
=============================================================================
