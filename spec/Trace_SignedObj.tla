---------------------------- MODULE Trace_SignedObj ----------------------------
(* ROAs and ASPAs with random content against EE certificates with random       *)
(* full-width resources (coordinate-compressed): the object is accepted exactly *)
(* when every ROA prefix range lies inside the certificate's validated IP       *)
(* resources, resp. the ASPA customer inside its AS resources.                  *)
EXTENDS IntervalSet, TLC, Json, IOUtils, TLCExt
Rec == ndJsonDeserialize(IOEnv.TRACE)
VARIABLE l
Ch(x) == [i \in 1..Len(x) |-> <<x[i][1], x[i][2]>>]
Covered(p, res) == DenB(p) \subseteq Den(res)
EvRoa(e) == LET res == Ch(e.res) ps == Ch(e.prefixes) IN
            /\ IsCanon(res)
            /\ e.ok = (\A i \in 1..Len(ps) : Covered(ps[i], res))
EvAspa(e) == e.ok = (e.customer \in Den(Ch(e.res)))
TInit == l = 1
TNext == /\ l <= Len(Rec)
         /\ LET e == Rec[l] IN CASE e.ev = "roa" -> EvRoa(e) [] e.ev = "aspa" -> EvAspa(e) [] OTHER -> FALSE
         /\ l' = l + 1
TraceSpec == TInit /\ [][TNext]_l
TraceAccepted ==
    LET d == TLCGet("stats").diameter IN
    IF d - 1 = Len(Rec) THEN TRUE ELSE Print(<<"TRACE-REJECTED", d>>, FALSE)
=============================================================================
