-------------------------------- MODULE CmsMsg --------------------------------
(***************************************************************************)
(* Signed CA-protocol messages (RFC 6492 / 8181 CMS; src/ca/sigmsg.rs,      *)
(* idcert.rs): a message validates against a peer's identity key exactly    *)
(* when every facet conforms.  Unlike RPKI signed objects, additional       *)
(* signed attributes are allowed and are part of the signed bytes, the EE   *)
(* certificate and the CRL may omit the authority key identifier, and the   *)
(* CRL may list other certificates.                                         *)
(***************************************************************************)
EXTENDS Naturals, Sequences, FiniteSets, TLC
CONSTANT MaxDev
\* total size of the signed attributes incl. one additional attribute (long-form DER lengths from 128)
Sizes == {"plain", "s120", "s127", "s128", "s129", "s255", "s256", "s257", "s300", "x2v"}      \* x2v: an extra attribute with two values
FacetValues == [
    attrs   |-> {"ok", "missing_ct", "missing_md", "missing_st", "dup_ct", "dup_md", "dup_st"},
    digest  |-> {"ok", "bad", "short", "long", "empty"},    \* wrong octet; a proper prefix; the digest plus one octet; no octets
    sig     |-> {"ok", "wrongkey", "bitflip", "stale"},      \* stale: the good signature of the conforming message over attributes that have since changed
    sid     |-> {"ok", "bad"},
    eesig   |-> {"peer", "other"},
    eetime  |-> {"ok", "expired", "notyet", "inverted"},   \* inverted: notBefore after notAfter, the evaluation time between them
    eeca    |-> {"no", "ext_false", "yes"},       \* Basic Constraints absent / present with cA = FALSE (still not a CA) / cA = TRUE
    eeaki   |-> {"peer", "none", "other"},
    crlsig  |-> {"peer", "other"},
    crltime |-> {"ok", "stale", "future", "inverted"},
    crlaki  |-> {"peer", "none", "other"},
    revoked |-> {"none", "other", "ee", "other_ee", "ee_other", "big_ee"},
    key     |-> {"peer", "other"} ]
Facets == DOMAIN FacetValues
Good == [attrs |-> {"ok"}, digest |-> {"ok"}, sig |-> {"ok"}, sid |-> {"ok"}, eesig |-> {"peer"}, eetime |-> {"ok"},
         eeca |-> {"no", "ext_false"}, eeaki |-> {"peer", "none"}, crlsig |-> {"peer"}, crltime |-> {"ok"}, crlaki |-> {"peer", "none"},
         revoked |-> {"none", "other"}, key |-> {"peer"}]
\* The statement is relative to the key the message is validated against (m.f.key): the EE certificate and the CRL must be
\* signed by THAT key and their authority key identifiers, where present, must name it.  (A message whose certificate and CRL
\* are all issued by the other key is a perfectly valid message of that other peer.)
Accept(m) == LET k == m.f.key IN
    /\ m.f.attrs = "ok" /\ m.f.digest = "ok" /\ m.f.sig = "ok" /\ m.f.sid = "ok"
    /\ m.f.eesig = k /\ m.f.eetime = "ok" /\ m.f.eeca \in {"no", "ext_false"} /\ m.f.eeaki \in {k, "none"}
    /\ m.f.crlsig = k /\ m.f.crltime = "ok" /\ m.f.crlaki \in {k, "none"}
    /\ m.f.revoked \in {"none", "other"}
VARIABLES msg, devs
vars == <<msg, devs>>
\* the two SHA-256 algorithm identifiers with parameters absent or NULL (digestAlgorithms set, SignerInfo): all four are good
AlgForms == {"aa", "nn", "na", "an"}
Init == /\ \E s \in Sizes, ea \in Good.eeaki, ca \in Good.crlaki, rv \in Good.revoked, ec \in Good.eeca, al \in AlgForms :
             /\ (al # "aa" => s = "plain" /\ ea = "peer" /\ ca = "peer" /\ rv = "none" /\ ec = "no")
             /\ msg = [size |-> s, alg |-> al, f |-> [attrs |-> "ok", digest |-> "ok", sig |-> "ok", sid |-> "ok", eesig |-> "peer", eetime |-> "ok",
                                       eeca |-> ec, eeaki |-> ea, crlsig |-> "peer", crltime |-> "ok", crlaki |-> ca, revoked |-> rv, key |-> "peer"]]
        /\ devs = 0
Deviate == /\ devs < MaxDev
           /\ \E fc \in Facets : \E v \in FacetValues[fc] \ Good[fc] :
                /\ msg.f[fc] \in Good[fc]
                /\ msg' = [msg EXCEPT !.f[fc] = v]
           /\ devs' = devs + 1
Next == Deviate
Spec == Init /\ [][Next]_vars
\* the conforming message is accepted and any single deviation is rejected
SinglePoint == (devs = 0 => Accept(msg)) /\ (devs = 1 => ~Accept(msg))
\* with more deviations only a complete change of identity is accepted again: everything issued by and validated under the other key
OnlyWholeIdentity == (devs > 0 /\ Accept(msg)) => (msg.f.key = "other" /\ msg.f.eesig = "other" /\ msg.f.crlsig = "other")
=============================================================================
