CONSTANTS Top = 6 MaxLen = 3
SPECIFICATION Spec
INVARIANTS BuildLaw MemberLaw CanonIsCanon BadLaw EmitBad Emit
CHECK_DEADLOCK FALSE
