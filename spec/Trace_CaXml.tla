----------------------------- MODULE Trace_CaXml -----------------------------
(* Random CA-protocol messages written by the library: every attribute that carries free text or  *)
(* a URI must stand in the document in a form that a conforming reader (Read) turns back into the value, and every *)
(* message must be well-formed and parse back to an equal message.  The event stream of one       *)
(* message is attr* msg; the msg event carries the number of attr events that belong to it.       *)
EXTENDS CaXml, Json, IOUtils, TLCExt
Rec == ndJsonDeserialize(IOEnv.TRACE)
VARIABLES l, pending
Q(x) == [i \in 1..Len(x) |-> x[i]]
\* the written form need not be the reference writer's (Esc), but a conforming reader must get the value back
EvAttr(e) == /\ Read("attr", Q(e.raw)) = Q(e.value)
             /\ pending' = pending + 1
EvMsg(e) == /\ e.variant \in Variants
            /\ e.wellformed /\ e.roundtrip
            /\ e.attrs = pending
            /\ pending' = 0
TInit == l = 1 /\ pending = 0
TNext == /\ l <= Len(Rec)
         /\ LET e == Rec[l] IN CASE e.ev = "attr" -> EvAttr(e) [] e.ev = "msg" -> EvMsg(e) [] OTHER -> FALSE
         /\ l' = l + 1
TraceSpec == TInit /\ [][TNext]_<<l, pending>>
TraceAccepted ==
    LET d == TLCGet("stats").diameter IN
    IF d - 1 = Len(Rec) THEN TRUE ELSE Print(<<"TRACE-REJECTED", d>>, FALSE)
=============================================================================
