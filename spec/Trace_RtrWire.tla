---------------------------- MODULE Trace_RtrWire ----------------------------
(* Random full-range PDUs written by the library (fields and produced bytes  *)
(* logged) must match the layout table; random PDU sequences cut at a random *)
(* point and read back must yield exactly the complete PDUs, then an error,  *)
(* without consuming past the cut.                                           *)
EXTENDS RtrLayout, Json, IOUtils, TLCExt
Rec == ndJsonDeserialize(IOEnv.TRACE)
VARIABLE l
Q(x) == [i \in 1..Len(x) |-> x[i]]
Fix(p) == [k \in DOMAIN p |-> IF k \in {"t", "ver", "flags", "plen", "mlen", "code"} THEN p[k] ELSE Q(p[k])]
EvEnc(e) == LET p == Fix(e.p) IN Enc(p) = Q(e.bytes) /\ LenOk(p) /\ e.back_ok
RECURSIVE Complete(_, _, _)
Complete(lens, i, cut) == IF i > Len(lens) \/ lens[i] > cut THEN 0 ELSE 1 + Complete(lens, i + 1, cut - lens[i])
RECURSIVE SumTo(_, _)
SumTo(lens, n) == IF n = 0 THEN 0 ELSE lens[n] + SumTo(lens, n - 1)
EvSeq(e) == LET n == Complete(Q(e.lens), 1, e.cut) IN
            /\ e.oks = n
            /\ e.consumed <= e.cut /\ e.consumed >= SumTo(Q(e.lens), n)
            /\ (n < Len(e.lens) => e.ended_in_error) /\ ~e.spun
TInit == l = 1
TNext == /\ l <= Len(Rec)
         /\ LET e == Rec[l] IN CASE e.ev = "enc" -> EvEnc(e) [] e.ev = "seq" -> EvSeq(e) [] OTHER -> FALSE
         /\ l' = l + 1
TraceSpec == TInit /\ [][TNext]_l
TraceAccepted ==
    LET d == TLCGet("stats").diameter IN
    IF d - 1 = Len(Rec) THEN TRUE ELSE Print(<<"TRACE-REJECTED", d>>, FALSE)
=============================================================================
