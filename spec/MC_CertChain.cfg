CONSTANTS Atom = {"a1", "a2", "a3"} Keys = {"k0", "k1", "k2"} Mode = "res"
SPECIFICATION Spec
INVARIANTS NeverGrow TransitiveShrink TaNoInherit SinglePoint Emit
CHECK_DEADLOCK FALSE
