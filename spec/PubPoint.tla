------------------------------- MODULE PubPoint -------------------------------
(***************************************************************************)
(* One publication point of a CA as a relying party walks it (RFC 9286 §6,  *)
(* RFC 6487, RFC 5280 CRLs).  The library supplies the steps -              *)
(*   Manifest::decode / validate, ManifestContent::{iter, is_stale},        *)
(*   ManifestHash::verify, Crl::decode / verify_signature / contains (with  *)
(*   and without the serial cache, directly and through CrlStore),          *)
(*   Roa::process with its CRL callback, Cert::validate_ca -                *)
(* their composition is the relying party's, and is what this module        *)
(* specifies: which objects of the publication point end up accepted.       *)
(*                                                                          *)
(* A world is a publication point described by facets; it starts conforming *)
(* and takes up to MaxDev deviations.  The walk is a sequence of steps, each *)
(* of which is one or two library calls; objects are processed in any order. *)
(***************************************************************************)
EXTENDS Naturals, Sequences, FiniteSets, TLC
CONSTANTS MaxDev,
          Objects                       \* the files of the publication point besides manifest and CRL (ROAs, certificates of child CAs)
\* (model checking lets the CRL revoke the manifest's certificate or one of two objects; recorded walks may name any object)
RevokedChoices == IF Cardinality(Objects) <= 3 THEN Objects \ {"r2"} ELSE Objects
ObjFacets == [listed |-> {"ok", "badhash", "unlisted"},  \* what the manifest says about the file
              present |-> {"yes", "no"},                 \* whether the repository has it
              sig |-> {"ca", "other"},                   \* which key issued it (its EE certificate for a ROA)
              res |-> {"inside", "outside"}]             \* its resources against the CA's
PpFacets == [mftsig |-> {"ca", "other"},
             mfttime |-> {"ok", "eeexpired", "stale"},   \* EE certificate expired / nextUpdate in the past
             crlsig |-> {"ca", "other"},
             crltime |-> {"ok", "stale"},
             crllisted |-> {"ok", "badhash", "unlisted"},
             revokes |-> {"none", "mft"} \cup RevokedChoices]   \* whose serial number the CRL lists
GoodObj == [listed |-> "ok", present |-> "yes", sig |-> "ca", res |-> "inside"]
GoodPp == [mftsig |-> "ca", mfttime |-> "ok", crlsig |-> "ca", crltime |-> "ok", crllisted |-> "ok", revokes |-> "none"]

VARIABLES pp, obj,       \* the world: publication-point facets, per-object facets
          devs,
          phase,         \* "world" | "mft" | "crl" | "objects" | "done" | "failed"
          todo,          \* listed objects not yet looked at
          accepted,      \* objects accepted so far
          log            \* steps taken, with their outcome (history; hidden from the state by a VIEW)
vars == <<pp, obj, devs, phase, todo, accepted, log>>
view == <<pp, obj, devs, phase, todo, accepted>>

\* ---- the statement: what a correct walk accepts
Listed(o) == obj[o].listed # "unlisted"
MftOk == pp.mftsig = "ca" /\ pp.mfttime = "ok"
CrlOk == pp.crllisted = "ok" /\ pp.crlsig = "ca" /\ pp.crltime = "ok"
\* every file the manifest lists is there with the listed hash (RFC 9286 §6.4: otherwise the fetch has failed as a whole)
FilesOk == \A o \in Objects : Listed(o) => obj[o].present = "yes" /\ obj[o].listed = "ok"
PpOk == MftOk /\ CrlOk /\ pp.revokes # "mft" /\ FilesOk
ObjValid(o) == obj[o].sig = "ca" /\ obj[o].res = "inside" /\ pp.revokes # o
Should == IF PpOk THEN {o \in Objects : Listed(o) /\ ObjValid(o)} ELSE {}

\* ---- the world is chosen first
Init == /\ pp = GoodPp /\ obj = [o \in Objects |-> GoodObj] /\ devs = 0
        /\ phase = "world" /\ todo = {} /\ accepted = {} /\ log = <<>>
DeviatePp == /\ phase = "world" /\ devs < MaxDev
             /\ \E f \in DOMAIN PpFacets : \E v \in PpFacets[f] :
                  /\ pp[f] = GoodPp[f] /\ v # GoodPp[f]
                  /\ pp' = [pp EXCEPT ![f] = v]
             /\ devs' = devs + 1 /\ UNCHANGED <<obj, phase, todo, accepted, log>>
DeviateObj == /\ phase = "world" /\ devs < MaxDev
              /\ \E o \in Objects : \E f \in DOMAIN ObjFacets : \E v \in ObjFacets[f] :
                   /\ obj[o][f] = GoodObj[f] /\ v # GoodObj[f]
                   /\ obj' = [obj EXCEPT ![o][f] = v]
              /\ devs' = devs + 1 /\ UNCHANGED <<pp, phase, todo, accepted, log>>
\* ---- the walk; every step names the library calls that decide it
Step(name, ok) == log' = Append(log, [step |-> name, ok |-> ok])
Fail == phase' = "failed" /\ accepted' = {} /\ todo' = {}
\* Manifest::decode + Manifest::validate (signature chain, EE validity) + ManifestContent::is_stale
LoadManifest == /\ phase = "world"
                /\ Step(<<"manifest", "">>, MftOk)
                /\ IF MftOk THEN phase' = "mft" /\ UNCHANGED <<todo, accepted>> ELSE Fail
                /\ UNCHANGED <<pp, obj, devs>>
\* the CRL is the file the manifest's EE certificate points to: it must be listed with the right hash (ManifestHash::verify),
\* decode, verify under the CA's key (Crl::verify_signature) and not be stale
LoadCrl == /\ phase = "mft"
           /\ Step(<<"crl", "">>, CrlOk)
           /\ IF CrlOk THEN phase' = "crl" /\ UNCHANGED <<todo, accepted>> ELSE Fail
           /\ UNCHANGED <<pp, obj, devs>>
\* Crl::contains(serial of the manifest's EE certificate)
CheckManifestEE == /\ phase = "crl"
                   /\ Step(<<"mft-revoked", "">>, pp.revokes # "mft")
                   /\ IF pp.revokes # "mft" THEN phase' = "objects" /\ todo' = {o \in Objects : Listed(o)} /\ UNCHANGED accepted ELSE Fail
                   /\ UNCHANGED <<pp, obj, devs>>
\* one listed file: fetch, ManifestHash::verify, then Roa::process (CRL callback = Crl::contains) or Cert::validate_ca + contains
ProcessObject(o) ==
    /\ phase = "objects" /\ o \in todo
    /\ LET fileOk == obj[o].present = "yes" /\ obj[o].listed = "ok" IN
       IF ~fileOk
       THEN Step(<<"file", o>>, FALSE) /\ Fail
       ELSE /\ Step(<<"object", o>>, ObjValid(o))
            /\ todo' = todo \ {o}
            /\ accepted' = IF ObjValid(o) THEN accepted \cup {o} ELSE accepted
            /\ UNCHANGED phase
    /\ UNCHANGED <<pp, obj, devs>>
Finish == /\ phase = "objects" /\ todo = {}
          /\ phase' = "done" /\ UNCHANGED <<pp, obj, devs, todo, accepted, log>>
Next == DeviatePp \/ DeviateObj \/ LoadManifest \/ LoadCrl \/ CheckManifestEE \/ (\E o \in Objects : ProcessObject(o)) \/ Finish
Spec == Init /\ [][Next]_vars /\ WF_vars(Next)

\* ---- laws
\* whatever the order in which the listed files are taken, the walk ends with exactly the set the statement names
Exact == phase \in {"done", "failed"} => accepted = Should
\* nothing is accepted that is unlisted, altered, issued by another key, over-claiming, revoked, or that hangs on a manifest or
\* CRL that does not hold
Safe == \A o \in accepted : Listed(o) /\ obj[o].listed = "ok" /\ obj[o].present = "yes" /\ ObjValid(o) /\ MftOk /\ CrlOk /\ pp.revokes # "mft"
\* a flaw of the publication point as a whole leaves nothing
AllOrNothing == phase \in {"done", "failed"} /\ ~PpOk => accepted = {}
\* a deviation never adds an accepted object
Conforming == devs = 0 /\ phase = "done" => accepted = Objects
Ends == <>(phase \in {"done", "failed"})
=============================================================================
