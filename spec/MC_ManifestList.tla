---------------------------- MODULE MC_ManifestList ----------------------------
(* Whole manifests: 0-3 entries drawn from good and bad names, hash lengths in  *)
(* classes, and thisUpdate / nextUpdate out of five instants in chronological   *)
(* order that the encoder writes in both time forms: 0 = 1950 (UTCTime "50..",   *)
(* the two-digit pivot), 1 = 2024 (GeneralizedTime), 2 = one second later        *)
(* (UTCTime), 3 = end of 2049 (UTCTime "49.."), 4 = 2050 (GeneralizedTime).      *)
EXTENDS Manifest, Json
Names == { <<"a", ".", "a", "Z", "a">>, <<"Z", "-", "_", "1", ".", "Z", "Z", "Z">>, <<".", "a", "a", "a">>, <<"a", "/", "a", ".", "a", "a", "a">>,
           <<"a", ".", "a", "a">>, <<"a", ".", "a", "1", "a">>, <<".", ".", ".", "a", "a", "a">> }
HashLens == {0, 31, 32, 33}
VARIABLES entries, thisUpd, nextUpd
vars == <<entries, thisUpd, nextUpd>>
Init == entries = <<>> /\ thisUpd \in 0..4 /\ nextUpd \in 0..4
\* the full 5 x 5 grid of instants for manifests of up to one entry, the middle 3 x 3 for longer ones
AddEntry == Len(entries) < 3 /\ (Len(entries) >= 1 => (thisUpd \in 1..3 /\ nextUpd \in 1..3)) /\ \E n \in Names, h \in HashLens : entries' = Append(entries, [name |-> n, hlen |-> h])
            /\ UNCHANGED <<thisUpd, nextUpd>>
Next == AddEntry
Spec == Init /\ [][Next]_vars
Decodes == thisUpd <= nextUpd /\ \A i \in 1..Len(entries) : NameOk(entries[i].name)
SafeLaw == Decodes => \A i \in 1..Len(entries) : Inside(entries[i].name)
Emit == PrintT(<<"REPLAY", ToJson([op |-> "manifest", entries |-> entries, this |-> thisUpd, next |-> nextUpd, decodes |-> Decodes])>>)
=============================================================================
