---------------------------- MODULE MC_ManifestList ----------------------------
(* Whole manifests: 0-3 entries drawn from good and bad names, hash lengths in  *)
(* classes, and the three orders of thisUpdate / nextUpdate.                    *)
EXTENDS Manifest, Json
Names == { <<"a", ".", "a", "Z", "a">>, <<"Z", "-", "_", "1", ".", "Z", "Z", "Z">>, <<".", "a", "a", "a">>, <<"a", "/", "a", ".", "a", "a", "a">>,
           <<"a", ".", "a", "a">>, <<"a", ".", "a", "1", "a">>, <<".", ".", ".", "a", "a", "a">> }
HashLens == {0, 31, 32, 33}
VARIABLES entries, thisUpd, nextUpd
vars == <<entries, thisUpd, nextUpd>>
Init == entries = <<>> /\ thisUpd \in 0..2 /\ nextUpd \in 0..2
AddEntry == Len(entries) < 3 /\ \E n \in Names, h \in HashLens : entries' = Append(entries, [name |-> n, hlen |-> h])
            /\ UNCHANGED <<thisUpd, nextUpd>>
Next == AddEntry
Spec == Init /\ [][Next]_vars
Decodes == thisUpd <= nextUpd /\ \A i \in 1..Len(entries) : NameOk(entries[i].name)
SafeLaw == Decodes => \A i \in 1..Len(entries) : Inside(entries[i].name)
Emit == PrintT(<<"REPLAY", ToJson([op |-> "manifest", entries |-> entries, this |-> thisUpd, next |-> nextUpd, decodes |-> Decodes])>>)
=============================================================================
