---------------------------- MODULE Trace_RtrPacing ----------------------------
(* Recorded conversations of the real Client with the real Server over a wire that      *)
(* delivers on command, paused clock, time in milliseconds (Refresh = 20000, Patience =  *)
(* 10000): every action with the counters observed after it (queries written, updates    *)
(* applied, whether and why the client ended) must be explained by RtrPacing.  An         *)
(* "advance" of dt milliseconds is the specification's Tick taken dt times with the       *)
(* timers that become due on the way (AdvanceBy).                                          *)
EXTENDS RtrPacing, Json, IOUtils, TLCExt
Rec == ndJsonDeserialize(IOEnv.TRACE)
VARIABLE l
Fresh == /\ now' = 0 /\ mode' = "start" /\ deadline' = 0 /\ c2s' = <<>> /\ s2c' = <<>>
         /\ asked' = 0 /\ answered' = 0 /\ notified' = 0 /\ log' = <<>>
TInit == Rec[1].ev = "reset" /\ l = 2 /\ TLCSet(1, 2) /\ Init
\* the client's side of `dt` milliseconds passing: [now, mode, deadline, c2s, asked]
RECURSIVE AdvanceBy(_, _)
AdvanceBy(s, dt) ==
    IF s.mode \in {"wait", "await"} /\ s.deadline <= s.now + dt
    THEN LET t == IF s.deadline > s.now THEN s.deadline ELSE s.now IN
         IF s.mode = "wait"
         THEN AdvanceBy([now |-> t, mode |-> "await", deadline |-> t + Patience, c2s |-> Append(s.c2s, "query"), asked |-> s.asked + 1], dt - (t - s.now))
         ELSE [s EXCEPT !.now = s.now + dt, !.mode = "timedout"]
    ELSE [s EXCEPT !.now = s.now + dt]
Advance(dt) == LET r == AdvanceBy([now |-> now, mode |-> mode, deadline |-> deadline, c2s |-> c2s, asked |-> asked], dt) IN
    /\ mode \notin {"start", "failed", "timedout"}
    /\ now' = r.now /\ mode' = r.mode /\ deadline' = r.deadline /\ c2s' = r.c2s /\ asked' = r.asked
    /\ UNCHANGED <<s2c, answered, notified, log>>
EndOf(m) == IF m = "failed" THEN "failed" ELSE IF m = "timedout" THEN "timedout" ELSE "no"
Event == /\ l <= Len(Rec)
         /\ LET e == Rec[l] IN
            \/ e.ev = "reset" /\ Fresh
            \/ /\ \/ e.ev = "start" /\ CliStart
                  \/ e.ev = "advance" /\ Advance(e.dt)
                  \/ e.ev = "notify" /\ SrvNotify
                  \/ e.ev = "serve" /\ SrvServe
                  \/ e.ev = "deliver" /\ CliRecv
               /\ asked' = e.q /\ answered' = e.a /\ EndOf(mode') = e.end
         /\ l' = l + 1 /\ TLCSet(1, l + 1)
TraceSpec == TInit /\ [][Event]_<<l, vars>>
TraceAccepted == IF TLCGet(1) = Len(Rec) + 1 THEN TRUE ELSE Print(<<"TRACE-REJECTED", TLCGet(1)>>, FALSE)
=============================================================================
