CONSTANTS
  MaxSupply = 1
  Level = 1
  Worlds <- Cyclic
SPECIFICATION Spec
INVARIANTS EmitWorld PathBounded
CHECK_DEADLOCK FALSE
