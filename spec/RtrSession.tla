----------------------------- MODULE RtrSession -----------------------------
(***************************************************************************)
(* One RTR client synchronising against one RTR server whose data source   *)
(* changes underneath (src/rtr/{client,server,payload}.rs, RFC 8210).      *)
(*                                                                         *)
(* One action per point at which the server touches its source:            *)
(*   SrvQuery     check_version, ready(), then diff(state) / full() - the  *)
(*                snapshot and the state it belongs to are taken together  *)
(*   SrvSendItem  one diff.next()/set.next(); items the negotiated version *)
(*                does not carry are dropped (new_if_supported)            *)
(*   SrvSendEod   final next() = None, timing() read NOW, End of Data      *)
(* SrcUpdate is enabled between any two of them.  Delivery of a PDU and    *)
(* the client's handling of it are folded into the sending action: the     *)
(* client's handlers read only the PDU and the client's own state, so each *)
(* interleaving with source updates is equivalent to this one.             *)
(* ConnLost (when Faults): the transport dies while the client waits for or *)
(* receives a response; the step fails, nothing is handed to the target    *)
(* and the client keeps the state it had (FailAtomic).                     *)
(* SrvMax is the highest version the server speaks (the library's server   *)
(* is the SrvMax = 2 instance; lower values model a legacy cache).         *)
(***************************************************************************)
EXTENDS Naturals, Sequences, FiniteSets, SequencesExt, TLC
CONSTANTS CliInit,      \* version the client starts with
          SrvMax,       \* highest version the server supports
          MaxHist,      \* source versions (initial one included)
          MaxSteps,     \* client steps
          Window,       \* how many serials back the source keeps diffs
          CliStart,     \* "none" | "stale" | "foreign": what the client remembers at connect
          KeepLog,      \* TRUE: carry the behaviour in `log` (replay emission); FALSE for trace validation
          Faults,       \* TRUE: the transport may fail while a response is outstanding (ConnLost)
          Crossing      \* TRUE: the source may notify just as the client's query goes out (NotifyCross)
NoneV == 9
\* payload items: <<kind, key, val>>; kind = minimum protocol version (0 origin, 1 router key, 2 ASPA)
\* (an announced ASPA may have an empty provider set: <<2, "c1", 0>>; on the wire it differs from a withdrawal by the flag only)
Items == { <<0, "o4", 0>>, <<0, "o6", 0>>, <<1, "k1", 0>>, <<2, "c1", 0>>, <<2, "c1", 1>>, <<2, "c1", 2>> }
MinVer(it) == it[1]
KeyOf(it) == <<it[1], it[2]>>
WellFormed(d) == \A x, y \in d : (x[1] = 2 /\ KeyOf(x) = KeyOf(y)) => x = y      \* one ASPA per customer
DataSets == { d \in SUBSET Items : WellFormed(d) }
RestrictTo(d, v) == { it \in d : MinVer(it) <= v }
Timings == {1, 2}

\* a fixed enumeration order for sets of items (any order would do: see DESIGN 2.4)
Rank(it) == CASE it = <<0, "o4", 0>> -> 1 [] it = <<0, "o6", 0>> -> 2 [] it = <<1, "k1", 0>> -> 3
              [] it = <<2, "c1", 1>> -> 4 [] OTHER -> 5
ItemSeq(S) == SetToSortSeq(S, LAMBDA x, y : Rank(x) < Rank(y))
\* diff old -> new: withdrawals (an ASPA whose customer stays is replaced by the announcement alone), then announcements
DiffSeq(old, new) ==
    LET wd == { it \in old : it \notin new /\ ~(it[1] = 2 /\ \E n \in new : KeyOf(n) = KeyOf(it)) }
        an == { it \in new : it \notin old }
    IN [i \in 1..Cardinality(wd) |-> <<"w", ItemSeq(wd)[i]>>] \o [i \in 1..Cardinality(an) |-> <<"a", ItemSeq(an)[i]>>]
FullSeq(d) == [i \in 1..Cardinality(d) |-> <<"a", ItemSeq(d)[i]>>]
\* what a target does with one update (ASPA records keyed by customer)
ApplyOne(d, u) == IF u[1] = "a" THEN { it \in d : ~(it[1] = 2 /\ KeyOf(it) = KeyOf(u[2])) } \cup {u[2]}
                  ELSE IF u[2][1] = 2 THEN { it \in d : KeyOf(it) # KeyOf(u[2]) } ELSE d \ {u[2]}
RECURSIVE ApplySeq(_, _)
ApplySeq(d, us) == IF us = <<>> THEN d ELSE ApplySeq(ApplyOne(d, Head(us)), Tail(us))

VARIABLES hist,      \* source: sequence of versions [session, serial, data]
          timing,    \* source: current timing parameters
          connVer,   \* server connection: negotiated version or NoneV
          resp,      \* server: response in progress [open, items, target]
          calls,     \* server: source calls made in the current client step
          cState,    \* client: <<session, serial>> or <<>>
          cVer, cData, cTiming,
          upd, reset,\* client: update under construction, whether it started with reset
          qkind,     \* client: "serial" | "reset" query outstanding
          phase,     \* "idle" | "query" | "recv" | "done" | "err"
          steps, eod,\* eod = [target, timing] of the last End of Data
          log        \* history of the behaviour for replay (not part of the VIEW)
vars == <<hist, timing, connVer, resp, calls, cState, cVer, cData, cTiming, upd, reset, qkind, phase, steps, eod, log>>
view == <<hist, timing, connVer, resp, calls, cState, cVer, cData, cTiming, upd, reset, qkind, phase, steps, eod>>
Cur == hist[Len(hist)]
NoResp == [open |-> FALSE, items |-> <<>>, target |-> 0]
NoneS == <<>>
StateOf(h) == <<h.session, h.serial>>
EffInit == IF CliInit < SrvMax THEN CliInit ELSE SrvMax
Init == /\ \E d \in DataSets : hist = << [session |-> 1, serial |-> 0, data |-> d] >>
        /\ timing = 1 /\ connVer = NoneV /\ resp = NoResp /\ calls = 0
        /\ cVer = NoneV /\ cTiming = 0 /\ upd = <<>> /\ reset = FALSE /\ qkind = "reset"
        /\ phase = "idle" /\ steps = 0 /\ eod = [target |-> 0, timing |-> 0]
        /\ CASE CliStart = "none"    -> cState = NoneS /\ cData = {}
             [] CliStart = "stale"   -> cState = <<1, 0>> /\ cData = RestrictTo(hist[1].data, EffInit)
             [] CliStart = "foreign" -> cState = <<7, 0>> /\ cData \in {{}, {<<0, "o4", 0>>}}
        /\ log = << [a |-> "init", state |-> cState, data |-> cData, v |-> hist[1]] >>
Note(e) == log' = IF KeepLog THEN Append(log, e) ELSE log
SrcUpdate ==
    /\ Len(hist) < MaxHist /\ phase # "err"
    /\ \E d \in DataSets, newsess \in BOOLEAN, t \in Timings :
         LET v == IF newsess THEN [session |-> Cur.session + 1, serial |-> 0, data |-> d]
                             ELSE [session |-> Cur.session, serial |-> Cur.serial + 1, data |-> d]
         IN /\ hist' = Append(hist, v) /\ timing' = t
            /\ Note([a |-> "update", at |-> calls, step |-> steps + 1, v |-> v, timing |-> t])
    /\ UNCHANGED <<connVer, resp, calls, cState, cVer, cData, cTiming, upd, reset, qkind, phase, steps, eod>>
CliV == IF cVer = NoneV THEN CliInit ELSE cVer
CliBegin == /\ phase = "idle" /\ steps < MaxSteps
            /\ qkind' = (IF cState = NoneS THEN "reset" ELSE "serial")
            /\ phase' = "query" /\ calls' = 0
            /\ UNCHANGED <<hist, timing, connVer, resp, cState, cVer, cData, cTiming, upd, reset, steps, eod, log>>
\* diff available for the client's state?
DiffFrom(s) == { i \in 1..Len(hist) : StateOf(hist[i]) = s /\ hist[i].session = Cur.session
                                       /\ Cur.serial - hist[i].serial <= Window }
CheckVer(v) == IF cVer = NoneV THEN v <= 2 ELSE v = cVer
SrvQuery ==
    /\ phase = "query" /\ ~resp.open
    /\ LET v == CliV IN
       IF connVer # NoneV /\ connVer # v THEN                 \* error 8: version switched
            /\ phase' = "err" /\ Note([a |-> "fail", step |-> steps + 1, state |-> cState, data |-> cData])
            /\ UNCHANGED <<hist, timing, connVer, resp, calls, cState, cVer, cData, cTiming, upd, reset, qkind, steps, eod>>
       ELSE IF connVer = NoneV /\ v > SrvMax THEN             \* error 4 carrying SrvMax
            IF cVer # NoneV \/ SrvMax >= 2
            THEN /\ phase' = "err" /\ Note([a |-> "fail", step |-> steps + 1, state |-> cState, data |-> cData])
                 /\ UNCHANGED <<hist, timing, connVer, resp, calls, cState, cVer, cData, cTiming, upd, reset, qkind, steps, eod>>
            ELSE /\ cVer' = SrvMax                            \* downgrade once, ask again
                 /\ UNCHANGED <<hist, timing, connVer, resp, calls, cState, cData, cTiming, upd, reset, qkind, phase, steps, eod, log>>
       ELSE /\ connVer' = v
            /\ IF qkind = "serial" /\ DiffFrom(cState) # {}
               THEN LET i == CHOOSE j \in DiffFrom(cState) : TRUE IN
                    /\ resp' = [open |-> TRUE, items |-> DiffSeq(hist[i].data, Cur.data), target |-> Len(hist)]
                    /\ calls' = calls + 2
                    /\ IF CheckVer(v) THEN cVer' = v /\ phase' = "recv" /\ upd' = <<>> /\ reset' = FALSE /\ UNCHANGED <<log, cState, qkind>>
                       ELSE phase' = "err" /\ Note([a |-> "fail", step |-> steps + 1, state |-> cState, data |-> cData]) /\ UNCHANGED <<cVer, upd, reset, cState, qkind>>
               ELSE IF qkind = "serial"
               THEN /\ calls' = calls + 2                      \* cache reset: forget the state, ask again with a reset query
                    /\ cState' = NoneS /\ qkind' = "reset"
                    /\ UNCHANGED <<resp, cVer, upd, reset, phase, log>>
               ELSE /\ resp' = [open |-> TRUE, items |-> FullSeq(Cur.data), target |-> Len(hist)]
                    /\ calls' = calls + 2
                    /\ IF CheckVer(v) THEN cVer' = v /\ phase' = "recv" /\ upd' = <<>> /\ reset' = TRUE /\ UNCHANGED <<log, cState, qkind>>
                       ELSE phase' = "err" /\ Note([a |-> "fail", step |-> steps + 1, state |-> cState, data |-> cData]) /\ UNCHANGED <<cVer, upd, reset, cState, qkind>>
            /\ UNCHANGED <<hist, timing, cData, cTiming, steps, eod>>
SrvSendItem ==
    /\ resp.open /\ resp.items # <<>> /\ phase = "recv"
    /\ LET u == Head(resp.items) IN
         /\ resp' = [resp EXCEPT !.items = Tail(resp.items)]
         /\ calls' = calls + 1
         /\ upd' = IF MinVer(u[2]) <= connVer THEN Append(upd, u) ELSE upd
    /\ UNCHANGED <<hist, timing, connVer, cState, cVer, cData, cTiming, reset, qkind, phase, steps, eod, log>>
SrvSendEod ==
    /\ resp.open /\ resp.items = <<>> /\ phase = "recv"
    /\ resp' = NoResp /\ calls' = calls + 2
    /\ eod' = [target |-> resp.target, timing |-> timing]
    /\ cState' = StateOf(hist[resp.target])
    /\ cTiming' = IF connVer >= 1 THEN timing ELSE cTiming
    /\ phase' = "done"
    /\ UNCHANGED <<hist, timing, connVer, cVer, cData, upd, reset, qkind, steps, log>>
CliApply ==
    /\ phase = "done"
    /\ cData' = ApplySeq(IF reset THEN {} ELSE cData, upd)
    /\ phase' = "idle" /\ steps' = steps + 1 /\ calls' = 0
    /\ Note([a |-> "step", step |-> steps + 1, ok |-> TRUE, state |-> cState, ver |-> cVer, reset |-> reset,
             data |-> ApplySeq(IF reset THEN {} ELSE cData, upd), timing |-> cTiming])
    /\ UNCHANGED <<hist, timing, connVer, resp, cState, cVer, cTiming, upd, reset, qkind, eod>>
\* the connection breaks after the server made `calls` source calls of this step; whatever was sent so far may reach the client,
\* the rest never does; the step fails without the target seeing anything
ConnLost ==
    /\ Faults /\ phase \in {"query", "recv"}
    /\ phase' = "err"
    /\ Note([a |-> "lost", step |-> steps + 1, at |-> calls, state |-> cState, data |-> cData])
    /\ UNCHANGED <<hist, timing, connVer, resp, calls, cState, cVer, cData, cTiming, upd, reset, qkind, steps, eod>>
\* The source notifies the server's connections just as the client's query goes out: the connection task finds a notification
\* and a query waiting, takes the notification first (the receiver is polled before the socket) and writes a Serial Notify ahead
\* of its response.  The client as implemented takes a Serial Notify where a response should start for a protocol error and the
\* step fails (RtrPacing's crossing, here with data in play).  The statement speaks of steps that finish: what must never happen
\* is a step that finishes with anything but the source's data (the harness asks that of any step that finishes here).
NotifyCross ==
    /\ Crossing /\ SrvMax >= 2 /\ phase = "query" /\ ~resp.open /\ calls = 0
    /\ phase' = "err" /\ qkind' = "crossed"
    /\ Note([a |-> "cross", step |-> steps + 1, state |-> cState, data |-> cData])
    /\ UNCHANGED <<hist, timing, connVer, resp, calls, cState, cVer, cData, cTiming, upd, reset, steps, eod>>
Next == SrcUpdate \/ CliBegin \/ SrvQuery \/ SrvSendItem \/ SrvSendEod \/ CliApply \/ ConnLost \/ NotifyCross
Spec == Init /\ [][Next]_vars /\ WF_vars(CliBegin \/ SrvQuery \/ SrvSendItem \/ SrvSendEod \/ CliApply)

\* ---- the property
SyncCorrect ==
    phase = "done" =>
      LET tgt == hist[eod.target] IN
      /\ ApplySeq(IF reset THEN {} ELSE cData, upd) = RestrictTo(tgt.data, cVer)
      /\ cState = StateOf(tgt)
      /\ (cVer >= 1 => cTiming = eod.timing)
VersionOk == phase \in {"recv", "done"} => cVer = connVer /\ cVer <= SrvMax /\ cVer <= CliInit
\* between steps the client's data is the source's data for the client's state (what makes diffs meaningful)
Consistent == (phase = "idle" /\ steps > 0) =>
                \E i \in 1..Len(hist) : StateOf(hist[i]) = cState /\ cData = RestrictTo(hist[i].data, cVer)
NoStaleSession == phase = "done" => cState[1] = hist[eod.target].session
\* a failing step hands nothing to the target and at most makes the client forget its state (cache reset before the failure)
FailAtomic == [][phase' = "err" => (cData' = cData /\ (cState' = cState \/ cState' = NoneS))]_vars
\* every started step finishes (or fails), whatever the source does
Progress == (phase = "query") ~> (phase \in {"idle", "err"})
=============================================================================
