CONSTANTS Uris = {"u1", "u2"} Datas = {"d1", "d2"} MaxOps = 3 MaxRival = 1
SPECIFICATION Spec
VIEW view
INVARIANTS NoLostUpdate RightError Emit
PROPERTIES AllOrNothing FreshConverges WipeEmpties RefusedMeansStale Settles
CHECK_DEADLOCK FALSE
