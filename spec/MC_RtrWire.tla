------------------------------ MODULE MC_RtrWire ------------------------------
EXTENDS RtrWire, Json
\* expected verdict for the case of this behaviour, emitted once per case (initial states)
Verdict == LET n == Need(entry, type, ver, len) IN
           IF avail < 8 \/ n = ErrN THEN "err" ELSE IF avail >= 8 + n THEN "ok" ELSE "err"
Emit == (got = 0 /\ phase = "hdr" /\ zero = 0) =>
          PrintT(<<"REPLAY", ToJson([op |-> "read", entry |-> entry, type |-> type, ver |-> ver, len |-> len, avail |-> avail,
                     verdict |-> Verdict, bound |-> IF len > 8 THEN len ELSE 8])>>)
=============================================================================
