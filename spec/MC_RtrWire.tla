------------------------------ MODULE MC_RtrWire ------------------------------
EXTENDS RtrWire, Json
\* quick: the two stream readers and, of the 27 fixed-size readers, every kind of reader on PDUs of every size; thorough: all
QuickEntries == StreamEntries \cup {<<"t", "k0">>, <<"t", "k3">>, <<"t", "k8">>, <<"t", "k4">>, <<"t", "k71">>,
                                          <<"y", "k0">>, <<"y", "k2">>, <<"y", "k6">>, <<"y", "k70">>, <<"y", "k71">>,
                                          <<"p", "k1">>, <<"p", "k3">>, <<"p", "k4">>, <<"p", "k70">>}
\* truncation points: quick = every PDU size and its neighbours; thorough = every byte
QuickAvails == {0, 3, 7, 8, 9, 11, 12, 13, 16, 19, 20, 21, 23, 24, 25, 31, 32, 33, 36, 37}
AllAvails == 0..42
AllEntries == StreamEntries \cup ReaderEntries
\* expected verdict for the case of this behaviour, emitted once per case (initial states)
Verdict == LET n == Need(entry, type, ver, len) IN
           IF avail < 8 \/ n = ErrN THEN "err" ELSE IF avail >= 8 + n THEN "ok" ELSE "err"
\* entries as strings for the harness: "payload", "skip", "t0" .. "p71"
EntryName == IF entry \in StreamEntries THEN entry[1] ELSE entry[1] \o SubSeq(entry[2], 2, Len(entry[2]))
\* one line per case; the open-stream variant is replayed for the cases the available bytes decide (the others wait, rightly)
Emit == (got = 0 /\ phase = "hdr" /\ zero = 0 /\ (open => Decided)) =>
          PrintT(<<"REPLAY", ToJson([op |-> "read", entry |-> EntryName, type |-> type, ver |-> ver, len |-> len, avail |-> avail, open |-> open,
                     verdict |-> Verdict, eat |-> IF Verdict = "ok" THEN 8 + Need(entry, type, ver, len) ELSE 0,
                     bound |-> IF len > 8 THEN len ELSE 8])>>)
=============================================================================
