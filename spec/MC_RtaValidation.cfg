CONSTANTS
  MaxSupply = 2
  Level = 1
  Worlds <- AllWorlds
SPECIFICATION Spec
INVARIANTS PathBounded PathProper ResourceSafety SignersBound Confluent DoneIsAll
PROPERTIES Monotone TalIsInert
CHECK_DEADLOCK FALSE
