CONSTANT MaxDev = 2
SPECIFICATION Spec
INVARIANTS SinglePoint Emit
PROPERTY Monotone
CHECK_DEADLOCK FALSE
