------------------------------ MODULE Manifest ------------------------------
(***************************************************************************)
(* Manifest file lists (src/repository/manifest.rs, RFC 9286 4.2.2).  A    *)
(* listed name is a sequence of characters; NameOk is the RFC's grammar    *)
(* (one or more of a-z A-Z 0-9 - _, a dot, a three-letter extension);      *)
(* ImplValid transcribes validate_file_name.  Resolving a valid name       *)
(* against a base directory (UriAlgebra's RJoin) must stay directly inside *)
(* that directory.  A manifest is built entry by entry by an independent   *)
(* encoder; it decodes iff every name is valid and thisUpdate is not after *)
(* nextUpdate.                                                             *)
(***************************************************************************)
EXTENDS UriAlgebra
Alnum == {"a", "Z", "1"}                    \* representatives of a-z, A-Z, 0-9
NameChars == Alnum \cup {"-", "_"}
Letters == {"a", "Z"}
\* ---- RFC 9286 grammar
NameOk(n) == /\ Len(n) >= 5
             /\ n[Len(n) - 3] = "."
             /\ \A i \in 1..(Len(n) - 4) : n[i] \in NameChars
             /\ \A i \in (Len(n) - 2)..Len(n) : n[i] \in Letters
\* ---- transcription of validate_file_name
RECURSIVE ScanBase(_, _)
ScanBase(n, i) ==            \* index after the first dot, 0 if an invalid character comes first, Len+1 if no dot
    IF i > Len(n) THEN Len(n) + 1
    ELSE IF n[i] = "." THEN i + 1
    ELSE IF n[i] \notin NameChars THEN 0
    ELSE ScanBase(n, i + 1)
ImplValid(n) ==
    IF Len(n) > 0 /\ n[1] = "." THEN FALSE
    ELSE LET k == ScanBase(n, 1) IN
         IF k = 0 THEN FALSE
         ELSE LET ext == SubSeq(n, k, Len(n)) IN Len(ext) = 3 /\ \A i \in 1..3 : ext[i] \in Letters
\* ---- resolving against a publication point
Base == <<"h", "/", "m", "/", "d", "/">>          \* rsync://h/m/d/
Inside(n) == LET u == RJoin(Base, n) IN
             /\ u # NoneU /\ RsyncWF(u) /\ RParent(u) = Base /\ RRelativeTo(u, Base) = n
=============================================================================
