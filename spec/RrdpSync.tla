------------------------------- MODULE RrdpSync -------------------------------
(***************************************************************************)
(* An RRDP repository (RFC 8182) and one relying party that keeps a copy of *)
(* it.  The library supplies the documents and their checks -               *)
(*   NotificationFile / Snapshot / Delta: new, write_xml, parse;            *)
(*   sort_and_verify_deltas(limit); ProcessSnapshot / ProcessDelta          *)
(*   (callbacks meta, publish with optional hash, withdraw with hash);      *)
(*   Hash::from_data / matches -                                            *)
(* and the relying party's loop around them is what this module specifies:  *)
(* after every synchronisation the copy equals what the server holds, by    *)
(* snapshot or by deltas, whatever the server did in between and whatever   *)
(* is wrong with the delta list.                                            *)
(*                                                                          *)
(* The server's history is a sequence of repository states (a state is the  *)
(* set of present URIs with their content); delta k+1 turns state k into    *)
(* state k+1 and names the hash of every object it replaces or removes.     *)
(***************************************************************************)
EXTENDS Naturals, Sequences, FiniteSets, TLC
CONSTANTS Uris, Datas,        \* small universes: URIs and object contents
          MaxHist,            \* how many states one session may reach
          Retain,             \* how many deltas a notification lists
          MaxSyncs
None == "none"
Repos == [Uris -> Datas \cup {None}]                 \* None: the URI is not published
Flaws == {"ok", "gap", "badhash", "stale-delta"}     \* what may be wrong with the delta list / a delta file of a notification
VARIABLES session,          \* the server's session (a counter: a new session forgets the history)
          hist,             \* states of the current session; serial = Len(hist)
          flaw,             \* the flaw of the notification the server currently serves
          cSession, cSerial, cRepo,   \* the relying party's copy
          syncs,
          last,             \* how the last synchronisation went: "none" | "snapshot" | "deltas" | "nothing"
          log               \* what happened, in order (history; hidden from the state by a VIEW)
vars == <<session, hist, flaw, cSession, cSerial, cRepo, syncs, last, log>>
view == <<session, hist, flaw, cSession, cSerial, cRepo, syncs, last>>
Serial == Len(hist)
Cur == hist[Serial]
\* ---- deltas
\* the elements of the delta between two states, per URI: publish / update (with the hash of what it replaces) / withdraw
Elem(old, new, u) ==
    IF old[u] = new[u] THEN <<"keep">>
    ELSE IF old[u] = None THEN <<"publish", u, new[u]>>
    ELSE IF new[u] = None THEN <<"withdraw", u, old[u]>>      \* the hash is that of the old content
    ELSE <<"update", u, old[u], new[u]>>
\* applying one element to a copy: the hash must be that of what the copy holds (publish: nothing held)
CanApply(r, e) == CASE e[1] = "keep" -> TRUE
                    [] e[1] = "publish" -> r[e[2]] = None
                    [] e[1] = "withdraw" -> r[e[2]] = e[3]
                    [] e[1] = "update" -> r[e[2]] = e[3]
Apply(r, e) == CASE e[1] = "keep" -> r
                 [] e[1] = "publish" -> [r EXCEPT ![e[2]] = e[3]]
                 [] e[1] = "withdraw" -> [r EXCEPT ![e[2]] = None]
                 [] e[1] = "update" -> [r EXCEPT ![e[2]] = e[4]]
\* the serials a notification lists deltas for: the last Retain ones; with the flaw "gap" one in the middle is missing
Listed == LET lo == IF Serial > Retain THEN Serial - Retain + 1 ELSE 2
              all == {k \in lo..Serial : k >= 2}
          IN IF flaw = "gap" /\ Cardinality(all) >= 3 THEN all \ {lo + 1} ELSE all
\* sort_and_verify_deltas: the listed serials are consecutive
Consecutive(S) == S = {} \/ \A k \in S : k = (CHOOSE m \in S : \A j \in S : m <= j) \/ (k - 1) \in S
\* can the copy be brought up to date by deltas?  (same session, not ahead, every step from its serial on is listed, the list holds,
\* every delta file is the one the notification names, and every element applies to what the copy holds)
RECURSIVE StepsOk(_, _)
StepsOk(r, k) == IF k > Serial THEN TRUE
                 ELSE /\ \A u \in Uris : CanApply(r, Elem(hist[k - 1], hist[k], u))
                      /\ StepsOk(hist[k], k + 1)
DeltasUsable == /\ cSession = session /\ cSerial >= 1 /\ cSerial < Serial
                /\ Consecutive(Listed)
                /\ \A k \in (cSerial + 1)..Serial : k \in Listed
                /\ flaw \notin {"badhash", "stale-delta"}
                /\ StepsOk(cRepo, cSerial + 1)
\* what applying the listed deltas does to a copy (a delta that is not listed is not applied; an element that does not apply is skipped)
ApplyOne(r, k) == [u \in Uris |-> LET e == Elem(hist[k - 1], hist[k], u) IN IF CanApply(r, e) THEN Apply(r, e)[u] ELSE r[u]]
RECURSIVE ApplyListed(_, _)
ApplyListed(r, k) == IF k > Serial THEN r ELSE ApplyListed(IF k \in Listed THEN ApplyOne(r, k) ELSE r, k + 1)
\* ---- the server
Init == /\ session = 1 /\ hist \in {<<r>> : r \in Repos} /\ flaw = "ok"
        /\ cSession = 0 /\ cSerial = 0 /\ cRepo = [u \in Uris |-> None] /\ syncs = 0 /\ last = "none"
        /\ log = <<[a |-> "start", repo |-> hist[1], flaw |-> "ok", how |-> "", listed |-> {}]>>
Publish == /\ Len(hist) < MaxHist
           /\ \E r \in Repos : r # Cur /\ hist' = Append(hist, r)
           /\ flaw' \in Flaws
           /\ log' = Append(log, [a |-> "publish", repo |-> hist'[Len(hist')], flaw |-> flaw', how |-> "", listed |-> {}])
           /\ UNCHANGED <<session, cSession, cSerial, cRepo, syncs, last>>
NewSession == /\ session < 2
              /\ session' = session + 1 /\ hist' = <<Cur>> /\ flaw' = "ok"
              /\ log' = Append(log, [a |-> "newsession", repo |-> Cur, flaw |-> "ok", how |-> "", listed |-> {}])
              /\ UNCHANGED <<cSession, cSerial, cRepo, syncs, last>>
\* ---- the relying party
Sync == /\ syncs < MaxSyncs
        /\ syncs' = syncs + 1
        /\ IF cSession = session /\ cSerial = Serial
           THEN last' = "nothing" /\ UNCHANGED <<cSession, cSerial, cRepo>>
           ELSE /\ cSession' = session /\ cSerial' = Serial
                \* by deltas: the LISTED deltas from the copy's serial on are applied to the copy; otherwise the snapshot replaces it
                /\ cRepo' = IF DeltasUsable THEN ApplyListed(cRepo, cSerial + 1) ELSE Cur
                /\ last' = IF DeltasUsable THEN "deltas" ELSE "snapshot"
        /\ log' = Append(log, [a |-> "sync", repo |-> Cur, flaw |-> flaw, how |-> last', listed |-> Listed])
        /\ UNCHANGED <<session, hist, flaw>>
Next == Publish \/ NewSession \/ Sync
Spec == Init /\ [][Next]_vars
\* ---- laws
\* a copy that is in step (same session, a serial of this history) holds exactly that state: whichever way it was brought there,
\* deltas or snapshot, and whatever the server published or listed in between.  (DeltasUsable is what makes this true: drop one of
\* its conjuncts - the list is consecutive, it reaches back to the copy's serial, the session is the same - and a gap or a foreign
\* history leaves the copy wrong.)
InStep == (cSession = session /\ cSerial >= 1 /\ cSerial <= Serial) => cRepo = hist[cSerial]
=============================================================================
