----------------------------- MODULE MC_RtrWireEnc -----------------------------
(* Layout: every PDU type x version x flags x boundary field values; a user    *)
(* picks a PDU by setting its fields.                                          *)
EXTENDS RtrLayout, Json
A4 == {<<0, 0, 0, 0>>, <<255, 255, 255, 255>>, <<1, 2, 3, 4>>}
S2 == {<<0, 0>>, <<255, 255>>, <<1, 2>>}
\* <<address, prefix length, max length>> with zero host bits
V4 == {<<<<0, 0, 0, 0>>, 0, 0>>, <<<<0, 0, 0, 0>>, 0, 32>>, <<<<192, 0, 2, 0>>, 24, 24>>, <<<<192, 0, 2, 0>>, 24, 32>>, <<<<255, 255, 255, 255>>, 32, 32>>}
V6 == {<<[i \in 1..16 |-> 0], 0, 128>>, <<<<32, 1, 13, 184, 0, 0, 0, 0, 0, 0, 0, 0, 0, 0, 0, 0>>, 32, 48>>, <<[i \in 1..16 |-> 255], 128, 128>>}
Infos == {<<>>, <<7>>, [i \in 1..91 |-> i]}
\* no provider, one, two, and the largest provider sets the PDU can carry (16379 and 16380 = ProviderAsns::MAX_COUNT)
Provs == {<<>>, <<0, 0, 253, 233>>, <<0, 0, 253, 233, 255, 255, 255, 255>>,
          [i \in 1..(4 * 16379) |-> IF i % 4 = 0 THEN 7 ELSE 0], [i \in 1..(4 * 16380) |-> IF i % 4 = 0 THEN 7 ELSE 0]}
Pdus ==
       {[t |-> "serial_notify", ver |-> v, sess |-> s, serial |-> x] : v \in 0..2, s \in S2, x \in A4}
  \cup {[t |-> "serial_query", ver |-> v, sess |-> s, serial |-> x] : v \in 0..2, s \in S2, x \in A4}
  \cup {[t |-> "reset_query", ver |-> v] : v \in 0..2}
  \cup {[t |-> "cache_response", ver |-> v, sess |-> s] : v \in 0..2, s \in S2}
  \cup {[t |-> "cache_reset", ver |-> v] : v \in 0..2}
  \cup {[t |-> "ipv4", ver |-> v, flags |-> f, plen |-> a[2], mlen |-> a[3], addr |-> a[1], asn |-> n] :
          v \in 0..2, f \in {0, 1}, a \in V4, n \in A4}
  \cup {[t |-> "ipv6", ver |-> v, flags |-> f, plen |-> a[2], mlen |-> a[3], addr |-> a[1], asn |-> n] :
          v \in 0..2, f \in {0, 1}, a \in V6, n \in A4}
  \cup {[t |-> "end_of_data", ver |-> v, sess |-> s, serial |-> x, refresh |-> r, retry |-> r2, expire |-> <<0, 0, 28, 32>>] :
          v \in 0..2, s \in S2, x \in A4, r \in A4, r2 \in {<<0, 0, 2, 88>>}}
  \* timers are three numbers, not an ordered triple: expire below refresh, retry as long as expire
  \cup {[t |-> "end_of_data", ver |-> v, sess |-> s, serial |-> <<0, 0, 0, 7>>, refresh |-> <<0, 0, 14, 16>>, retry |-> r2, expire |-> e] :
          v \in 1..2, s \in S2, r2 \in {<<0, 0, 2, 88>>, <<0, 0, 28, 32>>}, e \in {<<0, 0, 11, 184>>, <<0, 0, 28, 32>>}}
  \cup {[t |-> "router_key", ver |-> v, flags |-> f, ski |-> [i \in 1..20 |-> 160 + i], asn |-> n, info |-> k] :
          v \in 1..2, f \in {0, 1}, n \in A4, k \in Infos}
  \cup {[t |-> "aspa", ver |-> v, flags |-> f, customer |-> n, providers |-> p] : v \in {2}, f \in {0, 1}, n \in A4, p \in Provs}
  \cup {[t |-> "error", ver |-> v, code |-> c, pdu |-> e, text |-> x] :
          v \in 0..2, c \in {0, 4, 8, 258}, e \in {<<>>, <<1, 2, 0, 0, 0, 0, 0, 8>>}, x \in {<<>>, <<104, 105>>}}
VARIABLE p
Init == p \in Pdus
Next == UNCHANGED p
Spec == Init /\ [][Next]_p
LenLaw == LenOk(p)
VersionLaw == p.ver >= MinVersion(p)
\* the reader automaton's verdict on a whole, well-formed PDU: accepted, consuming exactly its length
\* (every reader that applies to the PDU: the stream readers for payload and error PDUs, all three fixed-size readers otherwise
\* and for the fixed-size payload PDUs as well)
WholeOk == LET bs == Enc(p)
               k  == CASE bs[2] = 0 -> "k0" [] bs[2] = 1 -> "k1" [] bs[2] = 2 -> "k2" [] bs[2] = 3 -> "k3" [] bs[2] = 4 -> "k4"
                       [] bs[2] = 6 -> "k6" [] bs[2] = 7 -> (IF bs[1] = 0 THEN "k70" ELSE "k71") [] bs[2] = 8 -> "k8" [] OTHER -> "none"
               es == (IF p.t \in {"ipv4", "ipv6", "router_key", "aspa", "end_of_data"} THEN {<<"payload", "">>} ELSE {})
                     \cup (IF p.t = "error" THEN {<<"skip", "">>} ELSE {})
                     \cup (IF k # "none" THEN {<<"t", k>>, <<"y", k>>, <<"p", k>>} ELSE {})
           IN es # {} /\ \A e \in es : Need(e, bs[2], bs[1], LenField(bs)) = Len(bs) - 8
Emit == PrintT(<<"REPLAY", ToJson([op |-> "pdu", p |-> p, bytes |-> Enc(p)])>>)
=============================================================================
