----------------------------- MODULE MC_SobBuilder -----------------------------
EXTENDS SobBuilder, Json
Emit == Buildable => PrintT(<<"REPLAY", ToJson([op |-> "sob", script |-> [i \in 1..Len(script) |-> [field |-> script[i][1], value |-> script[i][2]]],
                                                 expect |-> Twin])>>)
=============================================================================
