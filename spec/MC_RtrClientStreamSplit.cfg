CONSTANTS MaxDev = 0 MaxSteps = 3 CheckAll = TRUE Splits = {1, 4, 8, 11} CancelSafe = FALSE
SPECIFICATION Spec
INVARIANTS OkMeansClean StopsAtBad SettledIsCache Emit
PROPERTIES VersionStable Terminates
CHECK_DEADLOCK FALSE
