----------------------------- MODULE MC_RtrFanout -----------------------------
(* Replayable schedules: the harness cannot run one task of the real runtime at a time, only let everything run until all tasks *)
(* block ("settle").  So environment events come in bursts, and once an internal step was taken the next event waits for        *)
(* quiescence; `marks` records after how many events a settle happened.  (MC_RtrFanoutFree.cfg checks the laws on the           *)
(* unrestricted interleavings.)                                                                                                 *)
EXTENDS RtrFanout, Json
VARIABLES mode, marks
mvars == <<vars, mode, marks>>
MInit == Init /\ mode = "burst" /\ marks = <<>>
MEnv == /\ mode = "burst" \/ Quiescent
        /\ Environment
        /\ mode' = "burst"
        /\ marks' = IF mode = "settling" THEN Append(marks, Len(env)) ELSE marks
MInt == Internal /\ mode' = "settling" /\ UNCHANGED marks
MNext == MEnv \/ MInt
MSpec == MInit /\ [][MNext]_mvars /\ WF_mvars(MInt)
Emit == (Quiescent /\ env # <<>>) => PrintT(<<"REPLAY", ToJson([op |-> "fanout", env |-> env, marks |-> marks, out |-> out, st |-> st])>>)
=============================================================================
