------------------------------- MODULE AsnSet -------------------------------
(***************************************************************************)
(* SmallAsnSet (src/resources/asn.rs): a sorted, duplicate-free vector and  *)
(* four merge iterators over two such vectors, transcribed; collecting any  *)
(* multiset of items must give the sorted duplicate-free sequence of the    *)
(* set, and each iterator the mathematical set operation.                   *)
(***************************************************************************)
EXTENDS Naturals, Sequences, FiniteSets, SequencesExt, TLC, Json
CONSTANTS Vals, MaxItems
SortedSeq(S) == SetToSortSeq(S, <)
Elems(s) == {s[i] : i \in 1..Len(s)}
\* from_iter: collect, sort, dedup
RECURSIVE Dedup(_)
Dedup(s) == IF Len(s) <= 1 THEN s
            ELSE IF s[1] = s[2] THEN Dedup(Tail(s)) ELSE <<s[1]>> \o Dedup(Tail(s))
SortItems(s) == LET idx == SetToSortSeq({<<s[i], i>> : i \in 1..Len(s)},
                                     LAMBDA u, v : u[1] < v[1] \/ (u[1] = v[1] /\ u[2] < v[2]))
              IN [i \in 1..Len(idx) |-> idx[i][1]]
FromIter(s) == Dedup(SortItems(s))
\* the four peekable merges: l, r are the remaining inputs
RECURSIVE DiffI(_, _), SymI(_, _), InterI(_, _), UnionI(_, _)
DiffI(l, r) == IF l = <<>> THEN <<>>
               ELSE IF r = <<>> THEN l
               ELSE IF l[1] < r[1] THEN <<l[1]>> \o DiffI(Tail(l), r)
               ELSE IF l[1] = r[1] THEN DiffI(Tail(l), Tail(r))
               ELSE DiffI(l, Tail(r))
SymI(l, r) == IF l = <<>> THEN r
              ELSE IF r = <<>> THEN l
              ELSE IF l[1] = r[1] THEN SymI(Tail(l), Tail(r))
              ELSE IF l[1] < r[1] THEN <<l[1]>> \o SymI(Tail(l), r)
              ELSE <<r[1]>> \o SymI(l, Tail(r))
InterI(l, r) == IF l = <<>> \/ r = <<>> THEN <<>>
                ELSE IF l[1] = r[1] THEN <<r[1]>> \o InterI(Tail(l), Tail(r))
                ELSE IF l[1] < r[1] THEN InterI(Tail(l), r)
                ELSE InterI(l, Tail(r))
UnionI(l, r) == IF l = <<>> THEN r
                ELSE IF r = <<>> THEN l
                ELSE IF l[1] < r[1] THEN <<l[1]>> \o UnionI(Tail(l), r)
                ELSE IF l[1] = r[1] THEN <<r[1]>> \o UnionI(Tail(l), Tail(r))
                ELSE <<r[1]>> \o UnionI(l, Tail(r))

VARIABLES xs, ys          \* the multisets a user collects, as sequences
vars == <<xs, ys>>
Init == xs = <<>> /\ ys = <<>>
PushX == Len(xs) < MaxItems /\ \E v \in Vals : xs' = Append(xs, v) /\ ys' = ys
PushY == Len(ys) < MaxItems /\ \E v \in Vals : ys' = Append(ys, v) /\ xs' = xs
Next == PushX \/ PushY
Spec == Init /\ [][Next]_vars
A == FromIter(xs)
B == FromIter(ys)
SetLaw   == A = SortedSeq(Elems(xs)) /\ B = SortedSeq(Elems(ys))
DiffLaw  == DiffI(A, B)  = SortedSeq(Elems(xs) \ Elems(ys))
SymLaw   == SymI(A, B)   = SortedSeq((Elems(xs) \ Elems(ys)) \cup (Elems(ys) \ Elems(xs)))
InterLaw == InterI(A, B) = SortedSeq(Elems(xs) \cap Elems(ys))
UnionLaw == UnionI(A, B) = SortedSeq(Elems(xs) \cup Elems(ys))
Emit == PrintT(<<"REPLAY", ToJson([op |-> "asnset", xs |-> xs, ys |-> ys, a |-> A, b |-> B,
           diff |-> DiffI(A, B), sym |-> SymI(A, B), inter |-> InterI(A, B), union |-> UnionI(A, B)])>>)
=============================================================================
