------------------------------ MODULE SignedObj ------------------------------
(***************************************************************************)
(* RPKI signed objects (RFC 6488 / 9589 CMS profile; src/repository/         *)
(* sigobj.rs, roa.rs, aspa.rs, manifest.rs).  An object is assembled by an   *)
(* independent encoder from facets; it is accepted under an issuer exactly   *)
(* when every facet conforms.  Cryptographic facets (digest, signature, key  *)
(* identifiers, the EE certificate's own validation per CertChain) are       *)
(* realised by the harness and observed through the library's verdict.       *)
(* The machine starts from a conforming object of some kind and size class   *)
(* and applies up to MaxDev deviations (single- and double-point tampering). *)
(***************************************************************************)
EXTENDS Naturals, Sequences, FiniteSets, TLC
CONSTANT MaxDev
Kinds == {"gen", "roa", "aspa", "mft"}
\* total size of the signed attributes: below 128, around 128 and around 256 bytes (long-form DER lengths)
\* ... and 65535 bytes, the largest set the library captures (larger ones are refused by a documented limit; the statement's
\* "whatever their total size" is read within it)
Sizes == {"small", "s127", "s128", "s129", "s255", "s256", "s257", "s65535"}
FacetValues == [
    attrs  |-> {"ok", "missing_ct", "missing_md", "missing_st", "dup_ct", "dup_md", "dup_st", "unknown"},
    digest |-> {"ok", "bad", "short", "long", "empty"},     \* wrong octet; a proper prefix; the digest plus one octet; no octets
    \* "stale": the signature is the good signature of the conforming object (which has been validated before - conforming objects
    \* are the model's initial states), the signed attributes have since changed by one second of signing time
    sig    |-> {"ok", "wrongkey", "bitflip", "stale"},
    sid    |-> {"ok", "bad", "long"},                  \* one bit wrong; the right identifier followed by one more octet
    \* the embedded certificate: signed by another key, outside its validity, wrong AKI, a CA certificate (cA = TRUE), or a
    \* subject key identifier that is not the hash of its key (the signer identifier then names that wrong identifier)
    \* "resbad": its resource extension lists, AFTER a well-formed block that covers the object, an element that is not a range at
    \* all (bounds the wrong way round) - a certificate the decoder must refuse whole, not one to read up to the damage
    \* "overclaim": the issuer is a CA under the trimming policy whose own certificate claims more than ITS issuer holds (so part of
    \* the claim was trimmed away); the EE certificate, under the no-overclaim policy, claims exactly what that CA's certificate
    \* claims - more than the CA validly holds
    ee     |-> {"ok", "wrongissuer", "expired", "notyet", "akibad", "isca", "skibad", "resbad", "overclaim"},
    ctattr |-> {"ok", "mismatch"},                   \* content-type attribute vs eContentType
    \* ROA: a prefix disjoint from the EE resources / less specific than a resource block / straddling the end of a range /
    \*      of a family the certificate has no resources for; ASPA: customer outside, inherited, IP resources present
    \*      ("ipinherit": the IP extension is present as inherit under an issuer that holds no addresses - still IP resources)
    cover  |-> {"ok", "outside", "wider", "straddle", "nores", "inherit", "hasip4", "hasip6", "ipinherit"},
    crl    |-> {"ok", "revoked"} ]
Facets == DOMAIN FacetValues
\* ROA: the address family the coverage facet is realised in (the prefixes, the certificate's blocks, the deviation); with "+"
\* conforming prefixes of the other family, covered by the certificate, are present as well.  roa.rs checks the two families in
\* two separate loops; the statement speaks of "every ROA prefix".
Fams == {"v4", "v6", "v4+", "v6+"}
\* ROA: the overclaim policy of the EE certificate.  "trim" (RFC 8360): the certificate claims a whole /8 (/32) of which the issuer
\* holds two separate pieces (one); its validated resources are those pieces, and prefixes lie in the first AND in a later piece.
\* ASPA under "trim": the certificate claims one span of AS numbers of which the issuer holds the first and, after a gap, the rest;
\* the conforming customer lies in the later piece, the deviating one in the gap (inside the claim, outside what is validated).
Pols == {"refuse", "trim"}
\* how the two SHA-256 algorithm identifiers are written - parameters absent or NULL, in the digestAlgorithms set and in the
\* SignerInfo (RFC 5754 section 2: implementations must accept both forms); a shape of the object like its size, not a deviation
AlgForms == {"aa", "nn", "na", "an"}
\* which coverage deviations exist for which kind of object
CoverFor(k) == CASE k = "roa"  -> {"ok", "outside", "wider", "straddle", "nores"}
                 [] k = "aspa" -> {"ok", "outside", "inherit", "hasip4", "hasip6", "ipinherit"}
                 [] OTHER -> {"ok"}
Conforming == [f \in Facets |-> "ok"]
\* ---- the statement
Accept(o) == \A f \in Facets : o.f[f] = "ok"
\* Every entry point takes a `strict` flag (DER vs BER decoding; in relaxed mode signed attributes the profile does not know are
\* skipped instead of refused).  The statement holds in both modes; about unknown attributes it says nothing, so a relaxed-mode
\* verdict on such an object is not compared.
DecidedRelaxed(o) == o.f.attrs # "unknown"
\* ---- what the library checks where (decode vs validation), for diagnosis only
DecodeRejects(o) == o.f.attrs # "ok" \/ o.f.ctattr # "ok"

VARIABLES obj, devs
vars == <<obj, devs>>
Init == \E k \in Kinds, s \in Sizes, fm \in Fams, pl \in Pols, al \in AlgForms :
          /\ (k # "gen" => s = "small")            \* ROA / ASPA / manifest attribute sets have a fixed size
          /\ (k # "roa" => fm = "v4") /\ (k \notin {"roa", "aspa"} => pl = "refuse")
          /\ (al # "aa" => s = "small" /\ fm = "v4" /\ pl = "refuse")
          /\ obj = [kind |-> k, size |-> s, fam |-> fm, pol |-> pl, alg |-> al, f |-> Conforming] /\ devs = 0
Deviate == /\ devs < MaxDev
           /\ \E fc \in Facets : \E v \in FacetValues[fc] :
                /\ obj.f[fc] = "ok" /\ v # "ok"
                /\ (fc = "cover" => v \in CoverFor(obj.kind))
                \* "a family the certificate has no resources for" needs a family the certificate does not hold
                /\ (fc = "cover" /\ v = "nores" => obj.fam \in {"v4", "v6"})
                \* (the range that ends inside a prefix is realised with explicit blocks: no-overclaim certificates only)
                /\ (fc = "cover" /\ v = "straddle" => obj.pol = "refuse")
                \* (the other ASPA coverage deviations are shapes of the certificate's extensions, realised without a claim to trim)
                /\ (fc = "cover" /\ obj.kind = "aspa" /\ obj.pol = "trim" => v = "outside")
                /\ (fc = "ee" /\ v = "overclaim" => obj.kind \in {"roa", "aspa"} /\ obj.fam = "v4" /\ obj.pol = "refuse" /\ obj.f.cover = "ok")
                /\ (fc = "cover" /\ obj.f.ee = "overclaim" => FALSE)
                /\ (fc = "ee" /\ v = "resbad" => obj.kind \in {"roa", "aspa"} /\ obj.fam \in {"v4", "v4+"} /\ obj.pol = "refuse")
                /\ (fc = "crl" => obj.kind \in {"roa", "aspa", "gen"})   \* the process() entry points take a CRL callback
                /\ obj' = [obj EXCEPT !.f[fc] = v]
           /\ devs' = devs + 1
Next == Deviate
Spec == Init /\ [][Next]_vars
\* any single violation rejects; only the conforming object is accepted
SinglePoint == Accept(obj) <=> devs = 0
Monotone == [][~Accept(obj) => ~Accept(obj')]_vars
=============================================================================
