CONSTANTS W4 = 2 W6 = 3
SPECIFICATION Spec
INVARIANTS TransP TransML TransO TransCovers
CHECK_DEADLOCK FALSE
