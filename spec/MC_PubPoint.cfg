CONSTANTS MaxDev = 2 Objects = {"r1", "r2", "c1"}
SPECIFICATION Spec
VIEW view
INVARIANTS Exact Safe AllOrNothing Conforming Emit
PROPERTY Ends
CHECK_DEADLOCK FALSE
