CONSTANT MaxDev = 2
SPECIFICATION Spec
VIEW view
INVARIANTS Exact Safe AllOrNothing Conforming Emit
PROPERTY Ends
CHECK_DEADLOCK FALSE
