----------------------------- MODULE MC_X509Mut -----------------------------
(* Strings near valid ones: a user overwrites up to MaxEdits characters of a *)
(* valid encoding with characters from a digit-and-sign alphabet, or cuts /  *)
(* extends it by one character.                                              *)
EXTENDS X509Time, Json
CONSTANT MaxEdits
\* (with the characters that sit right next to the digits in ASCII: "/" before "0", ":" ... "?" after "9", "@")
Alphabet == {"0", "9", "5", "+", "-", " ", "Z", "a", "/", ":", ";", "<", "?", "@"}
Bases == {<<"utc", <<2023, 1, 31, 23, 59, 59>>>>, <<"gen", <<2050, 2, 28, 0, 0, 0>>>>}
VARIABLES tag, s, edits
vars == <<tag, s, edits>>
Init == \E b \in Bases : tag = b[1] /\ s = EncAs(b[1], b[2]) /\ edits = 0
Edit == /\ edits < MaxEdits
        /\ \E i \in 1..Len(s), c \in Alphabet : s' = [s EXCEPT ![i] = c]
        /\ edits' = edits + 1 /\ tag' = tag
Cut  == edits < MaxEdits /\ Len(s) > 1 /\ s' = SubSeq(s, 1, Len(s) - 1) /\ edits' = MaxEdits /\ tag' = tag
Grow == edits < MaxEdits /\ Len(s) < 16 /\ \E c \in {"0", "Z"} : s' = Append(s, c) /\ edits' = MaxEdits /\ tag' = tag
Swap == edits < MaxEdits /\ tag' = (IF tag = "utc" THEN "gen" ELSE "utc") /\ edits' = MaxEdits /\ s' = s
Next == Edit \/ Cut \/ Grow \/ Swap
Spec == Init /\ [][Next]_vars
\* accepted strings are exactly the encodings of the time they decode to
OnlyCanonical == LET d == Dec(tag, s) IN d # ErrT => EncAs(tag, d) = s /\ ValidTime(d)
Emit == PrintT(<<"REPLAY", ToJson([op |-> "decode", tag |-> tag, s |-> s, ok |-> Dec(tag, s) # ErrT, val |-> Dec(tag, s)])>>)
=============================================================================
