---------------------------- MODULE MC_PrefixCtor ----------------------------
(* Constructor guard table: every family, every W-bit address (host bits set *)
(* or not), every length up to W+2, every max-length.                         *)
EXTENDS PrefixLaws, Json
VARIABLES f, a, len, ml
vars == <<f, a, len, ml>>
Init == f \in Fams /\ a \in 0..(2^W6 - 1) /\ len \in 0..(W6 + 2) /\ ml \in (0..(W6 + 2)) \cup {NoneML}
Next == UNCHANGED vars
Spec == Init /\ [][Next]_vars
InFam == a < 2^Wd(f)
RelaxedLaw == InFam => LET r == Relaxed(f, a, len) IN
                (r # <<>> <=> len <= Wd(f)) /\ (r # <<>> => NewOk(f, r[2], r[3]) /\ (NewOk(f, a, len) => r[2] = a))
Emit == InFam => PrintT(<<"REPLAY", ToJson([op |-> "ctor", w4 |-> W4, w6 |-> W6, f |-> f, a |-> a, l |-> len, ml |-> ml,
           ok |-> NewOk(f, a, len),
           relaxed |-> IF len <= Wd(f) THEN Relaxed(f, a, len)[2] ELSE 0,
           relaxed_ok |-> len <= Wd(f),
           ml_ok |-> IF len <= Wd(f) THEN MLOk(Relaxed(f, a, len), ml) ELSE FALSE])>>)
=============================================================================
