CONSTANTS Sites = 12
Variants = 3
MaxMuts = 1
SPECIFICATION TraceSpec
POSTCONDITION TraceAccepted
CHECK_DEADLOCK FALSE
