--------------------------- MODULE MC_RtaValidation ---------------------------
EXTENDS RtaValidation, Json
CONSTANT Level          \* 1: quick family, 2: the full family
Inh == [inh |-> TRUE, s |-> {}]
R(s) == [inh |-> FALSE, s |-> s]
Cert(key, aki, ca, r, trim, serial) ==
    [key |-> key, aki |-> aki, sig |-> IF aki = "none" THEN key ELSE aki, ca |-> ca, inh |-> r.inh, s |-> r.s, trim |-> trim, serial |-> serial, live |-> TRUE]
Crl(by, revoked) == [by |-> by, revoked |-> revoked]
W(shape, subj, signers, ees, cas, crls) == [shape |-> shape, subj |-> subj, signers |-> signers, ees |-> ees, cas |-> cas, crls |-> crls]

Ee1Res == IF Level = 1 THEN {Inh, R({"a1"}), R({"a1", "a3"})} ELSE {Inh, R({"a1"}), R({"a1", "a2"}), R({"a1", "a3"}), R(Atoms), R({})}
Ee2Res == IF Level = 1 THEN {Inh, R({"a2", "a3"})} ELSE {Inh, R({"a2"}), R({"a2", "a3"})}
M1Res == IF Level = 1 THEN {Inh, R({"a1", "a2"}), R(Atoms)} ELSE {Inh, R({"a1", "a2"}), R({"a1"}), R(Atoms)}
M2Res == IF Level = 1 THEN {Inh, R({"a1", "a3"})} ELSE {Inh, R(Atoms), R({"a1", "a3"})}
Xs == {"x1", "x2"}
E1(aki, r, t) == Cert("e1", aki, FALSE, r, t, 11)
E2(aki, r, t) == Cert("e2", aki, FALSE, r, t, 12)
M1(aki, r, t) == Cert("m1", aki, TRUE, r, t, 21)
M2(aki, r, t) == Cert("m2", aki, TRUE, r, t, 22)

\* an EE directly under a CA the caller has
T1 == {W("direct", <<"e1">>, <<"e1">>, <<E1(x, r, t)>>, <<>>, <<>>) : x \in Xs, r \in Ee1Res, t \in BOOLEAN}
\* one embedded CA
T2 == {W("one", <<"e1">>, <<"e1">>, <<E1("m1", r, t)>>, <<M1(x, mr, mt)>>, <<Crl("m1", {})>>) : x \in Xs, r \in Ee1Res, t \in BOOLEAN, mr \in M1Res, mt \in BOOLEAN}
\* two embedded CAs, listed in either order
T3 == UNION {{W("two", <<"e1">>, <<"e1">>, <<E1("m1", r, t)>>, <<M1("m2", mr, mt), M2(x, nr, nt)>>, <<Crl("m1", {}), Crl("m2", {})>>),
              W("two-rev", <<"e1">>, <<"e1">>, <<E1("m1", r, t)>>, <<M2(x, nr, nt), M1("m2", mr, mt)>>, <<Crl("m2", {}), Crl("m1", {})>>)}
             : x \in (IF Level = 1 THEN {"x1"} ELSE Xs), r \in Ee1Res, t \in BOOLEAN, mr \in M1Res, mt \in BOOLEAN, nr \in M2Res, nt \in (IF Level = 1 THEN {FALSE} ELSE BOOLEAN)}
\* two signers below one embedded CA; the subject keys in either order
T4 == UNION {{W("shared", <<"e1", "e2">>, <<"e1", "e2">>, <<E1("m1", r, t), E2("m1", r2, FALSE)>>, <<M1(x, mr, mt)>>, <<Crl("m1", {})>>),
              W("shared-rev", <<"e2", "e1">>, <<"e1", "e2">>, <<E2("m1", r2, FALSE), E1("m1", r, t)>>, <<M1(x, mr, mt)>>, <<Crl("m1", {})>>)}
             : x \in Xs, r \in Ee1Res, t \in BOOLEAN, r2 \in Ee2Res, mr \in M1Res, mt \in (IF Level = 1 THEN {FALSE} ELSE BOOLEAN)}
\* two signers below two CAs the caller has
T5 == {W("split", <<"e1", "e2">>, <<"e1", "e2">>, <<E1(xa, r, t), E2(xb, r2, t2)>>, <<>>, <<>>) : xa \in Xs, xb \in Xs, r \in Ee1Res, t \in BOOLEAN, r2 \in Ee2Res, t2 \in BOOLEAN}
\* one signer below an embedded CA, the other directly below a CA the caller has
T6 == {W("mixed", <<"e1", "e2">>, <<"e2", "e1">>, <<E1("m1", r, t), E2("x2", r2, FALSE)>>, <<M1("x1", mr, mt)>>, <<Crl("m1", {})>>) : r \in Ee1Res, t \in BOOLEAN, r2 \in Ee2Res, mr \in M1Res, mt \in BOOLEAN}
\* an embedded self-signed root (with or without an authority key identifier)
T7 == {W("root", <<"e1">>, <<"e1">>, <<E1("r", r, FALSE)>>, <<Cert("r", a, TRUE, R(Atoms), FALSE, 1)>>, <<Crl("r", {})>>) : r \in Ee1Res, a \in {"none", "r"}}
\* broken objects: every static rule of new_at, one at a time, on the one-CA shape
Base == W("one", <<"e1">>, <<"e1">>, <<E1("m1", R({"a1"}), FALSE)>>, <<M1("x1", R({"a1", "a2"}), FALSE)>>, <<Crl("m1", {})>>)
Broken == {
    [Base EXCEPT !.shape = "nocrl", !.crls = <<>>],
    [Base EXCEPT !.shape = "extracrl", !.crls = <<Crl("m1", {}), Crl("m1", {})>>],
    [Base EXCEPT !.shape = "foreigncrl", !.crls = <<Crl("m2", {}), Crl("m1", {})>>],
    [Base EXCEPT !.shape = "extraee", !.ees = <<E1("m1", R({"a1"}), FALSE), E2("m1", R({"a1"}), FALSE)>>],
    [Base EXCEPT !.shape = "twinee", !.ees = <<E1("m1", R({"a1"}), FALSE), E1("m1", R({"a1", "a2"}), FALSE)>>],
    [Base EXCEPT !.shape = "extraca", !.cas = <<M1("x1", R({"a1", "a2"}), FALSE), M2("x1", R(Atoms), FALSE)>>, !.crls = <<Crl("m1", {}), Crl("m2", {})>>],
    [Base EXCEPT !.shape = "extrakey", !.subj = <<"e1", "e2">>],
    [Base EXCEPT !.shape = "nokey", !.subj = <<"e2">>],
    [Base EXCEPT !.shape = "twice", !.subj = <<"e1", "e1">>, !.signers = <<"e1", "e1">>],
    [Base EXCEPT !.shape = "nosigner", !.signers = <<>>, !.subj = <<>>, !.ees = <<>>, !.cas = <<>>, !.crls = <<>>],
    [Base EXCEPT !.shape = "revoked", !.crls = <<Crl("m1", {11})>>],
    [Base EXCEPT !.shape = "revokedother", !.crls = <<Crl("m1", {12, 21})>>],
    [Base EXCEPT !.shape = "deadee", !.ees = <<[E1("m1", R({"a1"}), FALSE) EXCEPT !.live = FALSE]>>],
    [Base EXCEPT !.shape = "deadca", !.cas = <<[M1("x1", R({"a1", "a2"}), FALSE) EXCEPT !.live = FALSE]>>],
    [Base EXCEPT !.shape = "badsig", !.ees = <<[E1("m1", R({"a1"}), FALSE) EXCEPT !.sig = "x1"]>>],
    [Base EXCEPT !.shape = "badsigtop", !.cas = <<[M1("x1", R({"a1", "a2"}), FALSE) EXCEPT !.sig = "x2"]>>],
    [Base EXCEPT !.shape = "twinca", !.cas = <<[M1("x1", R({"a1", "a2"}), FALSE) EXCEPT !.sig = "x2"], M1("x1", R({"a1", "a2"}), FALSE)>>, !.crls = <<Crl("m1", {}), Crl("m1", {})>>] }
\* two embedded CA certificates naming each other (only in MC_RtaCycle.cfg: the advance loop never ends)
Cyclic == {W("cycle", <<"e1">>, <<"e1">>, <<E1("m1", r, FALSE)>>, <<M1("m2", Inh, FALSE), M2("m1", Inh, FALSE)>>, <<Crl("m1", {}), Crl("m2", {})>>) : r \in {Inh, R({"a1"})}}

AllWorlds == T1 \cup T2 \cup T3 \cup T4 \cup T5 \cup T6 \cup T7 \cup Broken
EmitWorld == phase = "new" => PrintT(<<"REPLAY", ToJson([op |-> "cycle", world |-> rta])>>)
Emit == phase \in Terminal => PrintT(<<"REPLAY", ToJson([op |-> "rta", world |-> rta, steps |-> hist])>>)
=============================================================================
