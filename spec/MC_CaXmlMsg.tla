------------------------------ MODULE MC_CaXmlMsg ------------------------------
EXTENDS CaXmlMsg, Json
Emit == PrintT(<<"REPLAY", ToJson([op |-> op, variant |-> variant, focus |-> focus, value |-> Value, raw |-> RawExpected, expect |-> Read("attr", RawExpected),
                                   shape |-> shape, opt |-> opt, mut |-> mut, pos |-> pos])>>)
TableOk == CarrierSafe
=============================================================================
