CONSTANTS W4 = 12 W6 = 14
SPECIFICATION TraceSpec
POSTCONDITION TraceAccepted
CHECK_DEADLOCK FALSE
