----------------------------- MODULE MC_X509Enc -----------------------------
(* Boundary times: encode/decode round trip and tag choice.  A user sets    *)
(* any field of the time to any boundary value.                              *)
EXTENDS X509Time, Json
Years == {0, 1, 49, 50, 99, 100, 1900, 1949, 1950, 1999, 2000, 2024, 2049, 2050, 2100, 2400, 9999}
VARIABLE t
Init == t = <<2024, 1, 1, 0, 0, 0>>
SetY  == \E y \in Years : t' = [t EXCEPT ![1] = y]
SetMo == \E m \in 0..13 : t' = [t EXCEPT ![2] = m]
SetD  == \E d \in {0, 1, 28, 29, 30, 31, 32} : t' = [t EXCEPT ![3] = d]
SetH  == \E h \in {0, 23, 24} : t' = [t EXCEPT ![4] = h]
SetMi == \E m \in {0, 59, 60} : t' = [t EXCEPT ![5] = m]
SetS  == \E s \in {0, 59, 60} : t' = [t EXCEPT ![6] = s]
Next == SetY \/ SetMo \/ SetD \/ SetH \/ SetMi \/ SetS
Spec == Init /\ [][Next]_t
RoundTrip == ValidTime(t) => Dec(Tag(t), Enc(t)) = t
OtherTag  == ValidTime(t) => /\ Dec("gen", EncAs("gen", t)) = t
                             /\ (t[1] \in 1950..2049 <=> Dec("utc", EncAs("utc", t)) = t)
RejectBad == ~ValidTime(t) => Dec("gen", EncAs("gen", t)) = ErrT
Emit == PrintT(<<"REPLAY", ToJson([op |-> "time", t |-> t, valid |-> ValidTime(t), tag |-> Tag(t),
           str |-> Enc(t), gen |-> EncAs("gen", t), utc |-> EncAs("utc", t),
           utc_back |-> IF ValidTime(t) THEN Dec("utc", EncAs("utc", t)) ELSE ErrT])>>)
=============================================================================
