----------------------------- MODULE MC_PubProto -----------------------------
EXTENDS PubProto, Json
\* one conversation per distinct state: the first (a shortest) one that reaches it
Emit == PrintT(<<"REPLAY", ToJson([op |-> "pubproto", log |-> log])>>)
=============================================================================
