--------------------------- MODULE MC_ManifestNames ---------------------------
EXTENDS Manifest, Json
CONSTANT MaxLen
VARIABLE name
Init == name = <<>>
AppendChar == Len(name) < MaxLen /\ \E c \in Chars : name' = Append(name, c)
Next == AppendChar
Spec == Init /\ [][Next]_name
GrammarLaw == ImplValid(name) <=> NameOk(name)
InsideLaw  == NameOk(name) => Inside(name)
Emit == PrintT(<<"REPLAY", ToJson([op |-> "name", name |-> name, ok |-> NameOk(name)])>>)
=============================================================================
