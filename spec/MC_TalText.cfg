SPECIFICATION Spec
CONSTANTS MaxComments = 2
MaxUris = 3
MaxChunks = 3
INVARIANTS RenderParse PreferHttps Emit
CHECK_DEADLOCK FALSE
