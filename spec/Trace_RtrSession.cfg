CONSTANTS CliInit = 2 SrvMax = 2 MaxHist = 1000000 MaxSteps = 1000000 Window = 1 CliStart = "none" KeepLog = FALSE
SPECIFICATION TraceSpec
INVARIANTS SyncCorrect VersionOk NoStaleSession
POSTCONDITION TraceAccepted
CHECK_DEADLOCK FALSE
