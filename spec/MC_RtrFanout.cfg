CONSTANTS
  Conns = {1, 2}
  MaxEvents = 6
  Spawned = TRUE
SPECIFICATION MSpec
INVARIANTS AnswersOwn NoSpuriousNotify SubscribedAtTake NotifyFansOut Emit
PROPERTIES Isolated
CHECK_DEADLOCK FALSE
