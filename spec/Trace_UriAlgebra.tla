-------------------------- MODULE Trace_UriAlgebra --------------------------
(* Operations recorded from real rsync / HTTPS URIs (random long URIs with   *)
(* ports, percent signs, tildes, mixed case, deep paths), each explained by  *)
(* the specification's operators.  URIs are logged as character sequences    *)
(* after the scheme.                                                         *)
EXTENDS UriAlgebra, Json, IOUtils, TLCExt
Rec == ndJsonDeserialize(IOEnv.TRACE)
VARIABLE l
Q(x) == [i \in 1..Len(x) |-> x[i]]
Opt(isnone, x) == IF isnone THEN NoneU ELSE Q(x)
EvParse(e) == LET s == Q(e.s) IN
    IF e.kind = "rsync"
    THEN /\ RsyncWF(s) /\ Recomposes(s)
         /\ Q(e.auth) = RAuth(s) /\ Q(e.module) = RModule(s) /\ Q(e.path) = RPath(s)
    ELSE /\ HttpsWF(s) /\ Q(e.auth) = HAuth(s) /\ Q(e.path) = HPath(s)
EvPair(e) == LET x == Q(e.x)  y == Q(e.y) IN
    IF e.kind = "rsync"
    THEN /\ e.eq = REq(x, y) /\ (e.eq => e.hash_eq)
         /\ Opt(e.rel_none, e.rel) = RRelativeTo(x, y)
         /\ e.parent_of = RIsParentOf(x, y)
    ELSE /\ e.eq = HEq(x, y) /\ (e.eq => e.hash_eq)
EvJoin(e) == LET x == Q(e.x)  p == Q(e.p)
                 want == IF e.kind = "rsync" THEN RJoin(x, p) ELSE HJoin(x, p) IN
    \/ ~e.ok                                       \* refusing more is allowed
    \/ /\ e.ok /\ want # NoneU /\ Q(e.res) = want /\ e.reparse_ok
       /\ IF e.kind = "rsync" THEN RsyncWF(want) /\ RAuth(want) = RAuth(x)
                                   /\ (p # <<>> => RIsParentOf(x, want))
                              ELSE HAuth(want) = HAuth(x) /\ (p # <<>> => HBeneath(x, want))
EvParent(e) == LET x == Q(e.x) IN
    Opt(e.res_none, e.res) = (IF e.kind = "rsync" THEN RParent(x) ELSE HParent(x))
TInit == l = 1
TNext == /\ l <= Len(Rec)
         /\ LET e == Rec[l] IN
              CASE e.ev = "parse"  -> EvParse(e)
                [] e.ev = "pair"   -> EvPair(e)
                [] e.ev = "join"   -> EvJoin(e)
                [] e.ev = "parent" -> EvParent(e)
                [] OTHER -> FALSE
         /\ l' = l + 1
TraceSpec == TInit /\ [][TNext]_l
TraceAccepted ==
    LET d == TLCGet("stats").diameter IN
    IF d - 1 = Len(Rec) THEN TRUE ELSE Print(<<"TRACE-REJECTED", d>>, FALSE)
=============================================================================
