---------------------------- MODULE Rfc1982 ----------------------------
(***************************************************************************)
(* RTR serial numbers (RFC 8210 §5, RFC 1982 serial number arithmetic) at  *)
(* a parametric width W.  src/rtr/state.rs: Serial.                         *)
(*                                                                         *)
(* Two layers: Cmp/Add are the property as stated (a function of the       *)
(* difference modulo 2^W); ImplCmp is a transcription of what              *)
(* Serial::partial_cmp does (two-branch comparison on the raw integers).   *)
(* State machine: a register pair <<a, b>> and the operations a user can   *)
(* apply (Advance by n, Swap, Reload) so that TLC visits every pair and    *)
(* every increment.                                                        *)
(***************************************************************************)
EXTENDS Naturals, Integers, Sequences, TLC
CONSTANT W                      \* bit width of a serial number
ASSUME W \in 2..16

M    == 2^W                     \* modulus
Half == 2^(W-1)
Ser  == 0..(M-1)

Diff(a, b) == (b - a + M) % M   \* how far b is ahead of a

\* ---- the property, as stated
Cmp(a, b) ==
    LET d == Diff(a, b) IN
    IF d = 0 THEN "eq"
    ELSE IF d < Half THEN "lt"      \* b is 1..2^(W-1)-1 ahead
    ELSE IF d > Half THEN "gt"      \* b is that far behind
    ELSE "none"                     \* undefined exactly at distance 2^(W-1)

Add(a, n) == (a + n) % M

\* ---- transcription of Serial::partial_cmp
ImplCmp(a, b) ==
    IF a = b THEN "eq"
    ELSE IF a < b
         THEN LET sub == b - a IN
              IF sub < Half THEN "lt" ELSE IF sub > Half THEN "gt" ELSE "none"
         ELSE LET sub == a - b IN
              IF sub < Half THEN "gt" ELSE IF sub > Half THEN "lt" ELSE "none"

Flip(r) == CASE r = "lt" -> "gt" [] r = "gt" -> "lt" [] OTHER -> r

\* ---- "wide" form: a serial as a pair <<hi, lo>> of half-width digits with
\* half modulus hm.  TLC integers are 32-bit, so 32-bit serials recorded from
\* the implementation are evaluated in this form (hm = 2^16); WideMatches
\* (model-checked for even W) ties it to Cmp/Add above.
Split(x, hm)  == <<x \div hm, x % hm>>
DiffWide(A, B, hm) ==              \* B - A modulo hm^2, as a pair
    LET lo == (B[2] - A[2] + hm) % hm
        borrow == IF B[2] < A[2] THEN 1 ELSE 0
        hi == (B[1] - A[1] - borrow + 2 * hm) % hm
    IN <<hi, lo>>
CmpWide(A, B, hm) ==
    LET d == DiffWide(A, B, hm) IN
    IF d = <<0, 0>> THEN "eq"
    ELSE IF d[1] < hm \div 2 THEN "lt"
    ELSE IF d = <<hm \div 2, 0>> THEN "none"
    ELSE "gt"
AddWide(A, N, hm) ==
    LET lo == A[2] + N[2]
        hi == A[1] + N[1] + (lo \div hm)
    IN <<hi % hm, lo % hm>>

\* ---- big-endian wire form as a byte sequence (W a multiple of 8 only)
RECURSIVE BeBytes(_, _)
BeBytes(x, n) == IF n = 0 THEN <<>> ELSE BeBytes(x \div 256, n - 1) \o <<x % 256>>
RECURSIVE FromBe(_)
FromBe(bs) == IF bs = <<>> THEN 0
              ELSE FromBe([i \in 1..(Len(bs)-1) |-> bs[i]]) * 256 + bs[Len(bs)]
Len8 == W \div 8

VARIABLES a, b
vars == <<a, b>>

Init == a \in Ser /\ b \in Ser
Advance == \E n \in 1..(Half-1) : a' = Add(a, n) /\ b' = a
Swap    == a' = b /\ b' = a
Next == Advance \/ Swap
Spec == Init /\ [][Next]_vars

\* ---- laws
TypeOK        == a \in Ser /\ b \in Ser
ImplMatches   == ImplCmp(a, b) = Cmp(a, b)
DiffOnly      == \A k \in {1, Half - 1, Half, M - 1} :
                     Cmp(Add(a, k), Add(b, k)) = Cmp(a, b)
Antisymmetric == Cmp(b, a) = Flip(Cmp(a, b))
EqIffSame     == (Cmp(a, b) = "eq") <=> (a = b)
NoneIffHalf   == (Cmp(a, b) = "none") <=> (Diff(a, b) = Half)
\* after Advance, b holds the old value and a the advanced one
AddGreater    == [][ (\E n \in 1..(Half-1) : a' = Add(a, n) /\ b' = a)
                       => (Cmp(b', a') = "lt" /\ Cmp(a', b') = "gt") ]_vars
WideMatches   == W % 2 = 0 =>
                   LET hm == 2^(W \div 2) IN
                   /\ CmpWide(Split(a, hm), Split(b, hm), hm) = Cmp(a, b)
                   /\ \A n \in {1, b % Half, Half - 1} :
                        AddWide(Split(a, hm), Split(n, hm), hm) = Split(Add(a, n), hm)
AddLaw        == \A n \in {1, 2, Half - 2, Half - 1} : n >= 1 /\ n < Half =>
                     Cmp(a, Add(a, n)) = "lt" /\ Cmp(Add(a, n), a) = "gt"
=============================================================================
