CONSTANTS Chars = {"a"}
SPECIFICATION TraceSpec
POSTCONDITION TraceAccepted
CHECK_DEADLOCK FALSE
