------------------------------- MODULE PubProto -------------------------------
(***************************************************************************)
(* The publication protocol (RFC 8181) as a conversation: a publisher that  *)
(* wants a set of objects published, a publication server that holds one,   *)
(* and a rival that changes the server's objects behind the publisher's     *)
(* back (another client of the same server, an operator).  The library      *)
(* supplies the vocabulary - src/ca/publication.rs: Message (list query,    *)
(* list reply, delta query, success, error reply), PublishDelta with its    *)
(* Publish / Update / Withdraw elements, ListReply and into_withdraw_delta, *)
(* Base64::to_hash, ReportError and its codes, write_xml / decode /         *)
(* as_query / as_reply - and this module says what a conversation in that   *)
(* vocabulary must achieve:                                                 *)
(*   the publisher asks for the list, computes a delta from what it wants   *)
(*   and what was listed (publish: new; update: changed, naming the hash    *)
(*   of what it replaces; withdraw: gone, naming the hash), and sends it;   *)
(*   the server applies a delta wholly or not at all (RFC 8181 section 2.2) *)
(*   and checks every element against what it holds - the hash of an        *)
(*   update or withdraw must be that of the present object, a publish must  *)
(*   find the URI free.                                                     *)
(* Laws: FreshConverges (list, then delta, with nobody in between: the      *)
(* server holds what the publisher wants), NoLostUpdate (an accepted delta  *)
(* only replaced or removed objects the publisher had seen), AllOrNothing,  *)
(* RightError (a refusal names an element that cannot apply, with the       *)
(* RFC's code for the reason), WipeEmpties (the withdraw-all delta made     *)
(* from a fresh list leaves nothing), and under fairness Settles (once the  *)
(* rival is quiet, list + delta reach the goal).                            *)
(***************************************************************************)
EXTENDS Naturals, Sequences, FiniteSets, TLC
CONSTANTS Uris, Datas, MaxOps, MaxRival
None == "none"
Repos == [Uris -> Datas \cup {None}]
Empty == [u \in Uris |-> None]
\* one element per URI that differs between what was listed and what is wanted
Elem(old, new, u) ==
    IF old[u] = new[u] THEN <<"keep", u>>
    ELSE IF old[u] = None THEN <<"publish", u, new[u]>>
    ELSE IF new[u] = None THEN <<"withdraw", u, old[u]>>
    ELSE <<"update", u, old[u], new[u]>>
UriSeq == CHOOSE s \in [1..Cardinality(Uris) -> Uris] : \A i, j \in 1..Cardinality(Uris) : i # j => s[i] # s[j]
DeltaOf(old, new) == SelectSeq([i \in 1..Len(UriSeq) |-> Elem(old, new, UriSeq[i])], LAMBDA e : e[1] # "keep")
\* the server's side
Problem(r, e) == CASE e[1] = "publish"  -> IF r[e[2]] # None THEN "object_already_present" ELSE "ok"
                   [] e[1] = "withdraw" -> IF r[e[2]] = None THEN "no_object_present" ELSE IF r[e[2]] # e[3] THEN "no_object_matching_hash" ELSE "ok"
                   [] e[1] = "update"   -> IF r[e[2]] = None THEN "no_object_present" ELSE IF r[e[2]] # e[3] THEN "no_object_matching_hash" ELSE "ok"
Apply1(r, e) == CASE e[1] = "publish" -> [r EXCEPT ![e[2]] = e[3]]
                  [] e[1] = "withdraw" -> [r EXCEPT ![e[2]] = None]
                  [] e[1] = "update" -> [r EXCEPT ![e[2]] = e[4]]
RECURSIVE ApplyAll(_, _)
ApplyAll(r, d) == IF d = <<>> THEN r ELSE ApplyAll(Apply1(r, Head(d)), Tail(d))
\* (every URI occurs at most once in the deltas of this module, so checking against the state before the delta is checking in order)
Failing(r, d) == {i \in 1..Len(d) : Problem(r, d[i]) # "ok"}
FirstFailing(r, d) == CHOOSE i \in Failing(r, d) : \A j \in Failing(r, d) : i <= j

VARIABLES server,      \* what the publication server holds
          want,        \* what the publisher wants published
          listed,      \* the last list reply the publisher got
          haveList,    \* ... if it has asked at all
          reply,       \* the server's last reply: <<"none">> | <<"list", repo>> | <<"success">> | <<"error", code, element>>
          sent,        \* the last delta the publisher sent (history for the laws)
          before,      \* the server's objects just before that delta arrived
          ops, rival,
          log          \* the conversation so far (history; not part of the VIEW)
vars == <<server, want, listed, haveList, reply, sent, before, ops, rival, log>>
view == <<server, want, listed, haveList, reply, sent, before, ops, rival>>
Init == /\ server \in Repos /\ want \in Repos /\ listed = Empty /\ haveList = FALSE /\ reply = <<"none">> /\ sent = <<>> /\ before = server
        /\ ops = 0 /\ rival = 0 /\ log = << [op |-> "init", server |-> server, want |-> want] >>
Budget == ops < MaxOps
List == /\ Budget /\ ops' = ops + 1
        /\ listed' = server /\ haveList' = TRUE /\ reply' = <<"list", server>>
        /\ log' = Append(log, [op |-> "list", reply |-> reply', server |-> server])
        /\ UNCHANGED <<server, want, sent, before, rival>>
Deliver(d, name) ==
        /\ sent' = d /\ before' = server
        /\ IF Failing(server, d) = {}
           THEN server' = ApplyAll(server, d) /\ reply' = <<"success">>
           ELSE server' = server /\ reply' = <<"error", Problem(server, d[FirstFailing(server, d)]), d[FirstFailing(server, d)]>>
        \* (which of several failing elements a server reports is its choice: the log carries every code it may answer with)
        /\ log' = Append(log, [op |-> name, delta |-> d, reply |-> reply', server |-> server',
                                codes |-> {Problem(server, d[i]) : i \in Failing(server, d)}])
SendDelta == /\ Budget /\ ops' = ops + 1 /\ haveList
             /\ Deliver(DeltaOf(listed, want), "delta")
             /\ UNCHANGED <<want, listed, haveList, rival>>
\* "start over": withdraw everything the last list named (ListReply::into_withdraw_delta)
Wipe == /\ Budget /\ ops' = ops + 1 /\ haveList
        /\ Deliver(DeltaOf(listed, Empty), "wipe")
        /\ UNCHANGED <<want, listed, haveList, rival>>
\* somebody else changes one object behind the publisher's back
Interfere == /\ rival < MaxRival /\ rival' = rival + 1
             /\ \E u \in Uris, x \in Datas \cup {None} :
                  /\ x # server[u] /\ server' = [server EXCEPT ![u] = x]
                  /\ log' = Append(log, [op |-> "rival", uri |-> u, data |-> x, server |-> server'])
             /\ UNCHANGED <<want, listed, haveList, reply, sent, before, ops>>
Next == List \/ SendDelta \/ Wipe \/ Interfere
Spec == Init /\ [][Next]_vars /\ WF_vars(List) /\ WF_vars(SendDelta)

\* ---- laws
Touched(d) == {d[i][2] : i \in 1..Len(d)}
Accepted == reply = <<"success">>
Refused  == reply[1] = "error"
DeliveredWhole == (reply'[1] = "error" /\ server' = server) \/ (reply' = <<"success">> /\ server' = ApplyAll(server, sent'))
AllOrNothing == [][(SendDelta \/ Wipe) => DeliveredWhole]_vars
NoLostUpdate == Accepted => \A i \in 1..Len(sent) :
                    LET e == sent[i] IN (e[1] \in {"update", "withdraw"} => before[e[2]] = e[3]) /\ (e[1] = "publish" => before[e[2]] = None)
RightError == Refused => /\ \E i \in 1..Len(sent) : sent[i] = reply[3] /\ Problem(before, sent[i]) = reply[2]
                         /\ reply[2] \in {"object_already_present", "no_object_present", "no_object_matching_hash"}
\* a step of the conversation that started from a fresh list reaches its goal
FreshConverges == [][(SendDelta /\ listed = server) => (reply' = <<"success">> /\ server' = want)]_vars
WipeEmpties == [][(Wipe /\ listed = server) => (reply' = <<"success">> /\ server' = Empty)]_vars
\* a refusal says the list was stale
RefusedMeansStale == [][(SendDelta /\ reply'[1] = "error") => listed # server]_vars
\* once the rival is quiet the publisher gets there (list, delta): liveness, checked without the operation budget
Settles == (rival = MaxRival) ~> (server = want \/ ops = MaxOps)
=============================================================================
