------------------------- MODULE MC_RtrClientStream -------------------------
EXTENDS RtrClientStream, Json
\* one line per finished conversation: what the cache wrote, segment by segment, and what each update() call must return
Emit == Done => PrintT(<<"REPLAY", ToJson([op |-> "clientstream", sv |-> sv, start_state |-> startState, hist |-> hist,
                                            verdicts |-> verdicts, final_cv |-> cv, final_state |-> hasState,
                                            bad_at |-> badAt, pos |-> pos, dirty |-> dirty])>>)
=============================================================================
