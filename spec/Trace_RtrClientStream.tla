------------------------ MODULE Trace_RtrClientStream ------------------------
(* Recorded conversations of the real rtr::client::Client with a scripted cache: random    *)
(* versions, replies of any length (no payload PDU, the same PDU five times), deviations    *)
(* with arbitrary values (any version octet, any type octet, lengths around the right one), *)
(* streams cut at any octet, reads in random pieces.  Every recorded event must be a step   *)
(* of RtrClientStream: "start" (a new client), "wait" (what arrived before the refresh      *)
(* timer fired), "reply" (what the cache wrote after a query), "step" (what update()+apply  *)
(* returned).  The reader's own steps (ReadFirst / ReadNext) are not logged: they are       *)
(* silent steps between a "reply" and the next event.  The recorded reply need not come     *)
(* from DevSet: `dirty` is computed with Clean (the statement's "wrong type, length or      *)
(* version" said of any reply), and every law of the specification is evaluated after       *)
(* every step.                                                                             *)
EXTENDS RtrClientStream, Json, IOUtils, TLCExt
Rec == ndJsonDeserialize(IOEnv.TRACE)
VARIABLE l
\* (one initial state: the register that tracks the matched prefix must not be written by sibling behaviours)
TInit == Init /\ sv = 0 /\ hasState = FALSE /\ l = 1 /\ TLCSet(1, 1)
Pdus(e) == e.pdus
Silent == (ReadFirst \/ ReadNext) /\ l' = l
LastVerdict == verdicts[Len(verdicts)]
Event ==
    /\ l <= Len(Rec)
    /\ LET e == Rec[l] IN
       \/ /\ e.ev = "start" /\ phase \in {"idle", "err"}
          /\ sv' = e.sv /\ cv' = NoneV /\ hasState' = e.state /\ startState' = e.state /\ phase' = "query" /\ route' = "reset"
          /\ resp' = <<>> /\ tail' = 0 /\ ends' = FALSE /\ pos' = 0 /\ steps' = 1 /\ devs' = 0 /\ dirty' = FALSE /\ badAt' = 0
          /\ delivered' = 0 /\ hist' = <<>> /\ verdicts' = <<>> /\ shifted' = FALSE
       \/ /\ e.ev = "wait" /\ phase = "idle" /\ steps >= 1 /\ ~ends
          /\ steps' = steps + 1 /\ delivered' = 0 /\ pos' = 0
          /\ IF e.pdus = <<>> THEN phase' = "query" /\ UNCHANGED <<dirty, verdicts>>
             ELSE LET p == e.pdus[1] IN
                  /\ phase' = WaitOutcome(p) /\ dirty' = (dirty \/ WaitOutcome(p) = "err")
                  /\ verdicts' = (IF WaitOutcome(p) = "err" THEN Append(verdicts, <<"err", 0>>) ELSE verdicts)
          /\ UNCHANGED <<shifted, startState, sv, cv, hasState, route, resp, tail, ends, devs, badAt, hist>>
       \/ /\ e.ev = "reply" /\ phase = "query"
          /\ LET rt == IF hasState THEN "serial" ELSE "reset" IN
               /\ route' = rt /\ resp' = e.pdus /\ tail' = e.tail /\ ends' = e.ends
               /\ dirty' = (dirty \/ ~Clean(e.pdus, cv, rt))
               /\ badAt' = FirstWrong(e.pdus, cv, rt)
          /\ phase' = "first" /\ pos' = 0
          /\ UNCHANGED <<shifted, startState, sv, cv, hasState, steps, devs, delivered, hist, verdicts>>
       \/ /\ e.ev = "step" /\ phase \in {"idle", "err"} /\ verdicts # <<>>
          /\ LastVerdict[1] = e.verdict /\ (e.verdict = "ok" => LastVerdict[2] = e.items)
          /\ (e.verdict = "ok") = (phase = "idle")
          /\ UNCHANGED vars
    /\ l' = l + 1 /\ TLCSet(1, l + 1)
TNext == Silent \/ Event
TraceSpec == TInit /\ [][TNext]_<<l, vars>>
TVersionStable == [][(cv # NoneV /\ ~(l' = l + 1 /\ Rec[l].ev = "start")) => cv' = cv]_<<l, vars>>
\* the reader never goes past the first PDU the session must refuse
StopsAtWrong == (phase = "err" /\ badAt > 0 /\ pos > 0) => pos <= badAt
TraceAccepted == IF TLCGet(1) = Len(Rec) + 1 THEN TRUE ELSE Print(<<"TRACE-REJECTED", TLCGet(1)>>, FALSE)
=============================================================================
