CONSTANTS Chars = {"a", "Z", "1", "-", "_", ".", "/", " "} MaxLen = 6
SPECIFICATION Spec
INVARIANTS GrammarLaw InsideLaw Emit
CHECK_DEADLOCK FALSE
