-------------------------- MODULE Trace_Rfc1982 --------------------------
(* Trace validation: every operation recorded from the real Serial type    *)
(* (full 32-bit values, as 16-bit halves) must be what the specification's *)
(* operators say.  One event per line; the only state is the line counter. *)
EXTENDS Rfc1982, Json, IOUtils, TLCExt
Rec == ndJsonDeserialize(IOEnv.TRACE)
HM == 65536
VARIABLE l
tvars == <<l, a, b>>

ToSeq(f) == [i \in 1..Len(f) |-> f[i]]
EvCmp(e) == e.res = CmpWide(e.a, e.b, HM)
EvAdd(e) == /\ e.res = AddWide(e.a, e.n, HM)
            /\ e.cmp = "lt"                      \* a < a + n for 1 <= n < 2^31
            /\ CmpWide(e.a, e.res, HM) = "lt"
EvWire(e) == /\ e.bytes = <<e.a[1] \div 256, e.a[1] % 256, e.a[2] \div 256, e.a[2] % 256>>
             /\ e.back = e.a

TInit == l = 1 /\ a = 0 /\ b = 0
TNext == /\ l <= Len(Rec)
         /\ LET e == Rec[l] IN
              CASE e.ev = "cmp"  -> EvCmp(e)
                [] e.ev = "add"  -> EvAdd(e)
                [] e.ev = "wire" -> EvWire(e)
                [] OTHER -> FALSE
         /\ l' = l + 1
         /\ UNCHANGED <<a, b>>
TraceSpec == TInit /\ [][TNext]_tvars
TraceAccepted ==
    LET d == TLCGet("stats").diameter IN
    IF d - 1 = Len(Rec) THEN TRUE
    ELSE Print(<<"TRACE-REJECTED", d>>, FALSE)
=============================================================================
