------------------------------ MODULE X509Time ------------------------------
(***************************************************************************)
(* X.509 times, validity windows and certificate serial numbers              *)
(* (src/repository/x509.rs).  A time is <<year, month, day, hour, min, sec>>;*)
(* its encoding a sequence of one-character strings.  Enc chooses UTCTime    *)
(* for 1950-2049 and GeneralizedTime otherwise; Dec accepts exactly the      *)
(* fixed-width, all-digit, 'Z'-terminated forms that name a real calendar    *)
(* date and time, with the two-digit year pivot at 50.                       *)
(***************************************************************************)
EXTENDS Naturals, Sequences, FiniteSets, TLC
Digits == <<"0", "1", "2", "3", "4", "5", "6", "7", "8", "9">>
IsDigit(c) == \E i \in 1..10 : Digits[i] = c
DVal(c) == (CHOOSE i \in 1..10 : Digits[i] = c) - 1
DChr(n) == Digits[n + 1]
Leap(y) == (y % 4 = 0 /\ y % 100 # 0) \/ y % 400 = 0
DaysIn(y, m) == CASE m \in {1, 3, 5, 7, 8, 10, 12} -> 31
                  [] m \in {4, 6, 9, 11} -> 30
                  [] OTHER -> IF Leap(y) THEN 29 ELSE 28
ValidTime(t) == /\ t[1] \in 0..9999 /\ t[2] \in 1..12 /\ t[3] \in 1..DaysIn(t[1], t[2])
                /\ t[4] \in 0..23 /\ t[5] \in 0..59 /\ t[6] \in 0..59
D2(n) == <<DChr(n \div 10), DChr(n % 10)>>
D4(n) == <<DChr(n \div 1000), DChr((n \div 100) % 10), DChr((n \div 10) % 10), DChr(n % 10)>>
Tag(t) == IF t[1] >= 1950 /\ t[1] <= 2049 THEN "utc" ELSE "gen"
Rest(t) == D2(t[2]) \o D2(t[3]) \o D2(t[4]) \o D2(t[5]) \o D2(t[6]) \o <<"Z">>
EncAs(tag, t) == IF tag = "utc" THEN D2(t[1] % 100) \o Rest(t) ELSE D4(t[1]) \o Rest(t)
Enc(t) == EncAs(Tag(t), t)
N2(s, i) == DVal(s[i]) * 10 + DVal(s[i + 1])
N4(s, i) == DVal(s[i]) * 1000 + DVal(s[i + 1]) * 100 + DVal(s[i + 2]) * 10 + DVal(s[i + 3])
ErrT == <<>>
Dec(tag, s) ==
    LET n == IF tag = "utc" THEN 13 ELSE 15 IN
    IF Len(s) # n \/ s[n] # "Z" \/ ~(\A i \in 1..(n - 1) : IsDigit(s[i])) THEN ErrT
    ELSE LET o == IF tag = "utc" THEN 2 ELSE 4
             y == IF tag = "utc" THEN (IF N2(s, 1) >= 50 THEN 1900 + N2(s, 1) ELSE 2000 + N2(s, 1)) ELSE N4(s, 1)
             t == <<y, N2(s, o + 1), N2(s, o + 3), N2(s, o + 5), N2(s, o + 7), N2(s, o + 9)>>
         IN IF ValidTime(t) THEN t ELSE ErrT

\* ---- validity windows over abstract instants (naturals)
Within(nb, na, now) == nb <= now /\ now <= na
TrimW(a, b) == << IF a[1] > b[1] THEN a[1] ELSE b[1], IF a[2] < b[2] THEN a[2] ELSE b[2] >>

\* ---- serial numbers: big-endian byte sequences (unsigned)
RECURSIVE StripZ(_)
StripZ(b) == IF Len(b) > 1 /\ b[1] = 0 THEN StripZ(Tail(b)) ELSE b
MinimalDer(b) == LET s == StripZ(b) IN IF s[1] >= 128 THEN <<0>> \o s ELSE s
RECURSIVE NumVal(_)
NumVal(b) == IF b = <<>> THEN 0 ELSE NumVal(SubSeq(b, 1, Len(b) - 1)) * 256 + b[Len(b)]
RECURSIVE DecText(_)
DecText(n) == IF n < 10 THEN <<DChr(n)>> ELSE DecText(n \div 10) \o <<DChr(n % 10)>>
=============================================================================
