CONSTANTS StreamId = 1 MaxNotify = 1000000 HeaderSurvives = TRUE
CONSTANT Queries <- QueriesDef
SPECIFICATION TraceSpec
INVARIANTS AnswersInOrder NoLoss NoGarbage NotifyCount OneVersion
POSTCONDITION TraceAccepted
CHECK_DEADLOCK FALSE
