------------------------------ MODULE MC_CaXmlEsc ------------------------------
EXTENDS CaXmlEsc, Json
Emit == PrintT(<<"REPLAY", ToJson([op |-> "esc", mode |-> mode, value |-> value, raw |-> raw, expect |-> Read(mode, raw)])>>)
=============================================================================
