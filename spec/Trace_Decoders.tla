---------------------------- MODULE Trace_Decoders ----------------------------
(* Random multi-mutation fuzzing of every decoding entry point, one event per decoded input.  The       *)
(* specification's decoder has exactly two outcomes; a recorded "panic" or "blowup" is not a behaviour  *)
(* of Decoders, a value must have had all its accessors run, and the peak allocation must stay within   *)
(* the budget (a fixed multiple of the input size plus a constant).                                     *)
EXTENDS Decoders, Json, IOUtils, TLCExt
Rec == ndJsonDeserialize(IOEnv.TRACE)
VARIABLE l
\* One event = one complete run of Decoders: a fresh plan (Init, with the logged entry point and mode; the mutations themselves are
\* not logged) followed by the Decode step with the logged outcome.  The two steps are composed into one trace step.
Plan(e) == /\ entry' = e.entry /\ entry' \in Entries
           /\ strict' = e.strict /\ strict' \in (IF entry' \in HasRelaxed THEN BOOLEAN ELSE {TRUE})
           /\ muts' = << <<"logged", 0, 0>> >>
EvDecode(e) == /\ Plan(e)
               /\ outcome' = e.outcome /\ outcome' \in {"value", "error"}       \* what Decode can produce from "pending"
               /\ e.swept
               /\ e.reencode_ok
               /\ e.peak <= e.budget
TInit == l = 1 /\ entry = "cert" /\ strict = TRUE /\ muts = <<>> /\ outcome = "pending"
TNext == /\ l <= Len(Rec)
         /\ LET e == Rec[l] IN CASE e.ev = "decode" -> EvDecode(e) [] OTHER -> FALSE
         /\ l' = l + 1
TraceSpec == TInit /\ [][TNext]_<<l, vars>>
TraceAccepted ==
    LET d == TLCGet("stats").diameter IN
    IF d - 1 = Len(Rec) THEN TRUE ELSE Print(<<"TRACE-REJECTED", d>>, FALSE)
=============================================================================
