CONSTANTS Top = 5
SPECIFICATION Spec
INVARIANTS TrimLaw DiffLaw UnionLaw EncLaw EqLaw RefuseLaw TrimIssLaw InheritLaw SubsetLaw Emit
CHECK_DEADLOCK FALSE
