------------------------------- MODULE RrdpDoc -------------------------------
(***************************************************************************)
(* RRDP files as values (src/rrdp.rs): notification, snapshot and delta    *)
(* documents built one element at a time; the delta-chain check            *)
(* (sort_and_verify_deltas, transcribed) and the origin check              *)
(* (has_matching_origins) against their stated meaning.                    *)
(***************************************************************************)
EXTENDS Naturals, Sequences, FiniteSets, SequencesExt, TLC
CONSTANTS MaxElems, SerMax        \* SerMax stands for u64::MAX
Uris == {"u1", "u2"}              \* object URIs (rsync)
\* ("self": the hash of the element's own data - an update that republishes what is there, a withdraw of the empty object)
Hashes == {"h1", "h2", "self"}
\* object contents: no octets, one, all 256 octet values, 10 kB, and "huge" = 1.5 MB (more than the 1 MB budget of an element's
\* start tag, well within the 100 MB budget of an element with content); at most one huge object per document, first in the list
\* "vast" = 9 MiB + 5 octets: past any buffer a reader might think generous, a document of its own
Datas == {"empty", "one", "bin", "big", "huge", "vast"}
Serials == {0, 1, 2, 5, SerMax - 1, SerMax}
\* authorities of https URIs: "a" and "A" are the same host in different case, "b" another host, "ax" the host of "a" with
\* more labels appended, "ap" the host of "a" with a port - both different authorities that merely start like "a"
Auths == {"a", "A", "b", "ax", "ap"}
NoneL == 99                       \* "no limit" (Option::None)

\* ---- delta chain: transcription of NotificationFile::sort_and_verify_deltas(limit)
SortAsc(s) == SortSeq(s, <)
Retained(serials, limit) ==
    LET sorted == SortAsc(serials) IN
    IF limit # NoneL /\ limit < Len(sorted) THEN SubSeq(sorted, Len(sorted) - limit + 1, Len(sorted)) ELSE sorted
CheckedNext(x) == IF x = SerMax THEN SerMax + 7 ELSE x + 1      \* checked_add(1): None never equals a serial
RECURSIVE ChainOk(_, _)
ChainOk(s, i) == IF i >= Len(s) THEN TRUE
                 ELSE IF CheckedNext(s[i]) # s[i + 1] THEN FALSE ELSE ChainOk(s, i + 1)
ImplVerify(serials, limit) == IF serials = <<>> THEN TRUE ELSE LET r == Retained(serials, limit) IN ChainOk(r, 1)
\* the statement: success exactly when the retained deltas have consecutive serials
Consecutive(s) == \A i \in 1..(Len(s) - 1) : s[i] # SerMax /\ s[i + 1] = s[i] + 1
\* ---- origin check: every referenced URI has the notification's authority (case-insensitively)
Low(a) == IF a = "A" THEN "a" ELSE a
OriginsMatch(base, snap, deltas) == Low(snap) = Low(base) /\ \A i \in 1..Len(deltas) : Low(deltas[i]) = Low(base)

VARIABLES kind,      \* "notification" | "snapshot" | "delta"
          serial,    \* document serial
          elems,     \* snapshot: publish elements; delta: publish/update/withdraw; notification: delta entries
          snapAuth, base, limit
vars == <<kind, serial, elems, snapAuth, base, limit>>
Init == /\ kind \in {"notification", "snapshot", "delta"} /\ serial \in {0, 1, SerMax}
        /\ elems = <<>> /\ snapAuth \in Auths /\ base \in Auths /\ limit \in {NoneL, 0, 1, 2, 5}
AddElem ==
    /\ Len(elems) < MaxElems
    /\ (elems # <<>> /\ kind # "notification" => elems[1].data # "vast")
    /\ \/ kind = "snapshot" /\ \E u \in Uris, d \in Datas : (d \in {"huge", "vast"} => elems = <<>> /\ u = "u1")
                                /\ elems' = Append(elems, [t |-> "publish", uri |-> u, data |-> d])
       \/ kind = "delta" /\ \E u \in Uris, d \in Datas, h \in Hashes, t \in {"publish", "update", "withdraw"} :
              /\ (d \in {"huge", "vast"} => elems = <<>> /\ u = "u1" /\ h = "h1" /\ t # "withdraw")
              /\ elems' = Append(elems, [t |-> t, uri |-> u, data |-> IF t = "withdraw" THEN "empty" ELSE d, hash |-> h])
       \/ kind = "notification" /\ \E s \in Serials, a \in Auths, h \in {"h1", "h2"} :
              elems' = Append(elems, [t |-> "delta", serial |-> s, auth |-> a, hash |-> h])
    /\ UNCHANGED <<kind, serial, snapAuth, base, limit>>
Next == AddElem
Spec == Init /\ [][Next]_vars
DSerials == [i \in 1..Len(elems) |-> elems[i].serial]
DAuths == [i \in 1..Len(elems) |-> elems[i].auth]
ChainLaw == kind = "notification" => (ImplVerify(DSerials, limit) <=> Consecutive(Retained(DSerials, limit)))
RetainLaw == kind = "notification" =>
               LET r == Retained(DSerials, limit) IN
               Len(r) = (IF limit = NoneL \/ limit > Len(elems) THEN Len(elems) ELSE limit)
=============================================================================
