---------------------------- MODULE Trace_Manifest ----------------------------
(* Decoding verdicts for random manifests assembled by the harness' encoder:   *)
(* a manifest that decodes has only RFC 9286 names and ordered times, and its  *)
(* accessors agreed with the listing (checked natively, logged as `checked`).  *)
EXTENDS Manifest, Json, IOUtils, TLCExt
Rec == ndJsonDeserialize(IOEnv.TRACE)
VARIABLE l
Q(x) == [i \in 1..Len(x) |-> x[i]]
EvDecode(e) == e.ok => /\ e.this <= e.next
                       /\ \A i \in 1..Len(e.names) : NameOk(Q(e.names[i])) /\ ImplValid(Q(e.names[i]))
                       /\ e.checked
TInit == l = 1
TNext == /\ l <= Len(Rec)
         /\ LET e == Rec[l] IN CASE e.ev = "decode" -> EvDecode(e) [] OTHER -> FALSE
         /\ l' = l + 1
TraceSpec == TInit /\ [][TNext]_l
TraceAccepted ==
    LET d == TLCGet("stats").diameter IN
    IF d - 1 = Len(Rec) THEN TRUE ELSE Print(<<"TRACE-REJECTED", d>>, FALSE)
=============================================================================
