----------------------------- MODULE ResChain -----------------------------
(***************************************************************************)
(* Transcription layer: what src/repository/resources/chain.rs does, step   *)
(* by step, as recursive operators over chains (sequences of <<lo,hi>>).   *)
(*   FromIter      OwnedChain::from_iter (sorted fast path)                 *)
(*   Unsorted      from_iter_unsorted + merge_or_add_block + post-sort pass *)
(*   ContainsItem  Chain::contains_item                                     *)
(*   IsEncompassed Chain::is_encompassed                                    *)
(*   Trim          Chain::trim (Ok(()) = unchanged is folded into result)   *)
(*   Difference    Chain::difference                                        *)
(*   ChainEq       PartialEq for Chain                                      *)
(* The laws (in MC_ResChain*.tla) say each equals its set-theoretic meaning *)
(* from IntervalSet.                                                        *)
(***************************************************************************)
EXTENDS IntervalSet, TLC

NoneV == <<>>                        \* Option::None
Next1(x) == IF x = Top THEN Top + 1 ELSE x + 1      \* Top+1 never equals a point: None
Prev1(x) == x - 1                                   \* only used where the code unwraps
Mx(a, b) == IF a > b THEN a ELSE b
Mn(a, b) == IF a < b THEN a ELSE b

\* ---- Block::sum
Sum(e, b) ==
    IF e[1] <= b[2] /\ e[2] >= b[1] THEN <<Mn(e[1], b[1]), Mx(e[2], b[2])>>
    ELSE IF Next1(e[2]) = b[1] THEN <<e[1], b[2]>>
    ELSE IF Next1(b[2]) = e[1] THEN <<b[1], e[2]>>
    ELSE NoneV

RECURSIVE MergeOrAdd(_, _, _)
MergeOrAdd(res, b, i) ==
    IF i > Len(res) THEN Append(res, b)
    ELSE LET s == Sum(res[i], b) IN
         IF s # NoneV THEN [res EXCEPT ![i] = s] ELSE MergeOrAdd(res, b, i + 1)

\* sort_unstable_by_key(min): any stable or unstable sort by lower bound; after
\* merge_or_add no two blocks share a lower bound... not guaranteed in general,
\* so the spec sorts by <<lo, hi>> and the law must hold for that order.
SortByMin(s) == SetToSortSeq({<<s[i][1], s[i][2], i>> : i \in 1..Len(s)},
                             LAMBDA x, y : x[1] < y[1] \/ (x[1] = y[1] /\ x[3] < y[3]))

RECURSIVE PostMerge(_, _, _)
PostMerge(res, t, j) ==              \* res sorted by lower bound; t = tail, j = next
    IF j > Len(res) THEN SubSeq(res, 1, t)
    ELSE IF res[j][1] <= res[t][2] \/ res[j][1] = Next1(res[t][2])
         THEN PostMerge(IF res[j][2] > res[t][2]
                          THEN [res EXCEPT ![t] = <<res[t][1], res[j][2]>>] ELSE res, t, j + 1)
         ELSE PostMerge([res EXCEPT ![t + 1] = res[j]], t + 1, j + 1)

RECURSIVE Unsorted(_, _)
Unsorted(res, rest) ==
    IF rest = <<>>
    THEN LET s0 == SortByMin(res)
             s  == [i \in 1..Len(s0) |-> <<s0[i][1], s0[i][2]>>]
         IN IF Len(s) > 1 THEN PostMerge(s, 1, 2) ELSE s
    ELSE Unsorted(MergeOrAdd(res, Head(rest), 1), Tail(rest))

RECURSIVE FromIterR(_, _)
FromIterR(res, rest) ==
    IF rest = <<>> THEN res
    ELSE LET b == Head(rest) IN
         IF res = <<>> THEN FromIterR(<<b>>, Tail(rest))
         ELSE LET l == res[Len(res)] IN
              IF b[1] < l[1] THEN Unsorted(res, rest)
              ELSE IF b[1] <= l[2]
                   THEN FromIterR(IF b[2] > l[2] THEN [res EXCEPT ![Len(res)] = <<l[1], b[2]>>] ELSE res,
                                  Tail(rest))
              ELSE IF Next1(l[2]) = b[1]
                   THEN FromIterR([res EXCEPT ![Len(res)] = <<l[1], b[2]>>], Tail(rest))
              ELSE FromIterR(Append(res, b), Tail(rest))
FromIter(blocks) == FromIterR(<<>>, blocks)

\* ---- Chain::contains_item
RECURSIVE ContainsItemR(_, _, _)
ContainsItemR(c, x, i) ==
    IF i > Len(c) THEN FALSE
    ELSE IF c[i][1] > x THEN FALSE
    ELSE IF c[i][1] <= x /\ c[i][2] >= x THEN TRUE
    ELSE ContainsItemR(c, x, i + 1)
ContainsItem(c, x) == ContainsItemR(c, x, 1)

\* ---- Chain::is_encompassed  (self = s, other = o)
RECURSIVE SkipOther(_, _, _)
SkipOther(o, oi, lo) ==        \* advance while o[oi].max < lo; 0 = ran out
    IF o[oi][2] < lo THEN (IF oi < Len(o) THEN SkipOther(o, oi + 1, lo) ELSE 0) ELSE oi
RECURSIVE EncR(_, _, _, _)
EncR(s, o, si, oi) ==
    IF si > Len(s) THEN TRUE
    ELSE LET k == SkipOther(o, oi, s[si][1]) IN
         IF k = 0 THEN FALSE
         ELSE IF ~(o[k][1] <= s[si][1] /\ o[k][2] >= s[si][2]) THEN FALSE
         ELSE EncR(s, o, si + 1, k)
IsEncompassed(s, o) == IF o = <<>> THEN s = <<>> ELSE EncR(s, o, 1, 1)

\* ---- Chain::trim  (res is <<"idx", n>> = first n blocks kept as is, or <<"vec", seq>>)
TrimFinish(s, res) == IF res[1] = "idx" THEN SubSeq(s, 1, res[2]) ELSE res[2]
RECURSIVE TrimLoop(_, _, _, _, _, _)
TrimLoop(s, o, oi, si, cur, res) ==
    IF o[oi][2] < cur[1] THEN
        IF oi < Len(o) THEN TrimLoop(s, o, oi + 1, si, cur, res) ELSE TrimFinish(s, res)
    ELSE IF cur[1] >= o[oi][1] /\ cur[2] <= o[oi][2] THEN
        LET res2 == IF res[1] = "idx" THEN <<"idx", res[2] + 1>> ELSE <<"vec", Append(res[2], cur)>> IN
        IF si <= Len(s) THEN TrimLoop(s, o, oi, si + 1, s[si], res2)
        ELSE IF res2[1] = "idx" THEN s ELSE TrimFinish(s, res2)          \* Ok(()): unchanged
    ELSE
        LET kr == IF cur[2] < o[oi][1] THEN <<NoneV, NoneV>>
                  ELSE IF cur[2] <= o[oi][2] THEN << <<Mx(cur[1], o[oi][1]), cur[2]>>, NoneV >>
                  ELSE << <<Mx(cur[1], o[oi][1]), o[oi][2]>>, <<Next1(o[oi][2]), cur[2]>> >>
            res1 == IF res[1] = "idx" THEN <<"vec", SubSeq(s, 1, res[2])>> ELSE res
            res2 == IF kr[1] # NoneV THEN <<"vec", Append(res1[2], kr[1])>> ELSE res1
        IN IF kr[2] # NoneV THEN TrimLoop(s, o, oi, si, kr[2], res2)
           ELSE IF si <= Len(s) THEN TrimLoop(s, o, oi, si + 1, s[si], res2)
           ELSE TrimFinish(s, res2)
Trim(s, o) == IF o = <<>> THEN <<>> ELSE IF s = <<>> THEN s
              ELSE TrimLoop(s, o, 1, 2, s[1], <<"idx", 0>>)

\* ---- Chain::difference  (oi > Len(o) stands for other_item = None)
\* one loop iteration: [push, cur, tns, tno]
DiffStep(cur, oitem) ==
    IF oitem = NoneV THEN [push |-> <<cur>>, cur |-> cur, tns |-> TRUE, tno |-> FALSE]
    ELSE LET smin == cur[1]  smax == cur[2]  omin == oitem[1]  omax == oitem[2] IN
    IF smin < omin THEN
        IF smax < omin THEN [push |-> <<cur>>, cur |-> cur, tns |-> TRUE, tno |-> FALSE]
        ELSE IF smax = omin THEN [push |-> << <<smin, Prev1(omin)>> >>, cur |-> cur, tns |-> TRUE, tno |-> FALSE]
        ELSE LET p == << <<smin, Prev1(omin)>> >> IN
             IF smax < omax THEN [push |-> p, cur |-> cur, tns |-> TRUE, tno |-> FALSE]
             ELSE IF smax = omax THEN [push |-> p, cur |-> cur, tns |-> TRUE, tno |-> TRUE]
             ELSE [push |-> p, cur |-> <<Next1(omax), smax>>, tns |-> FALSE, tno |-> TRUE]
    ELSE IF smin = omin THEN
        IF smax < omax THEN [push |-> <<>>, cur |-> cur, tns |-> TRUE, tno |-> FALSE]
        ELSE IF smax = omax THEN [push |-> <<>>, cur |-> cur, tns |-> TRUE, tno |-> TRUE]
        ELSE [push |-> <<>>, cur |-> <<Next1(omax), smax>>, tns |-> FALSE, tno |-> TRUE]
    ELSE \* smin > omin
        IF smin < omax THEN
            IF smax < omax THEN [push |-> <<>>, cur |-> cur, tns |-> TRUE, tno |-> FALSE]
            ELSE IF smax = omax THEN [push |-> <<>>, cur |-> cur, tns |-> TRUE, tno |-> TRUE]
            ELSE [push |-> <<>>, cur |-> <<Next1(omax), smax>>, tns |-> FALSE, tno |-> TRUE]
        ELSE IF smin = omax THEN
            IF smin = smax THEN [push |-> <<>>, cur |-> cur, tns |-> TRUE, tno |-> TRUE]
            ELSE [push |-> <<>>, cur |-> <<Next1(omax), smax>>, tns |-> FALSE, tno |-> TRUE]
        ELSE [push |-> <<>>, cur |-> cur, tns |-> FALSE, tno |-> TRUE]
RECURSIVE DiffLoop(_, _, _, _, _, _)
DiffLoop(s, o, si, cur, oi, res) ==
    LET st == DiffStep(cur, IF oi <= Len(o) THEN o[oi] ELSE NoneV)
        res2 == res \o st.push
        oi2 == IF st.tno THEN oi + 1 ELSE oi
    IN IF st.tns THEN (IF si <= Len(s) THEN DiffLoop(s, o, si + 1, s[si], oi2, res2) ELSE res2)
       ELSE DiffLoop(s, o, si, st.cur, oi2, res2)
Difference(s, o) == IF s = <<>> THEN <<>> ELSE DiffLoop(s, o, 2, s[1], 1, <<>>)

\* ---- PartialEq for Chain
ChainEq(x, y) == Len(x) = Len(y) /\ \A i \in 1..Len(x) : x[i][1] = y[i][1] /\ x[i][2] = y[i][2]

\* ---- AsBlocks/IpBlocks operations as the code composes them
Union(x, y)        == FromIter(x \o y)
Intersection(x, y) == Trim(x, y)
ContainsChain(x, y)     == IsEncompassed(y, x)           \* x.contains(y)
\* verify_issued(issuer, kind, claimed, mode): <<ok, effective>>;  kind is the ResourcesChoice
VerifyIssued(issuer, kind, claimed, mode) ==
    CASE kind = "missing" -> <<TRUE, <<>> >>
      [] kind = "inherit" -> <<TRUE, issuer>>
      [] OTHER -> IF mode = "refuse"
                  THEN (IF IsEncompassed(claimed, issuer) THEN <<TRUE, claimed>> ELSE <<FALSE, <<>> >>)
                  ELSE <<TRUE, Trim(claimed, issuer)>>
=============================================================================
