CONSTANT MaxEdits = 1
SPECIFICATION Spec
INVARIANTS OnlyCanonical Emit
CHECK_DEADLOCK FALSE
