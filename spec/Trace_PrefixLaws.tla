-------------------------- MODULE Trace_PrefixLaws --------------------------
(* Every comparison recorded from real prefixes / max-length prefixes /     *)
(* route origins (random windows of the 32- and 128-bit spaces, logged in   *)
(* window coordinates) must be what the specification's operators say.      *)
EXTENDS PrefixLaws, Json, IOUtils, TLCExt
Rec == ndJsonDeserialize(IOEnv.TRACE)
VARIABLE l
P(x) == <<x[1], x[2], x[3]>>
EvPair(e) ==
    LET p == P(e.p)  q == P(e.q)
        m == <<p, e.pml>>  n == <<q, e.qml>>
        o == <<m, e.asn[1]>>  r == <<n, e.asn[2]>>
    IN /\ e.covers = ImplCovers(p, q) /\ e.covers = Covers(p, q)
       /\ e.cmp = ImplCmp(p, q)
       /\ e.eq = (p = q)
       /\ e.mlcmp = ImplCmpML(m, n) /\ e.mleq = (m = n)
       /\ e.ocmp = ImplCmpOrigin(o, r) /\ e.oeq = OriginEq(o, r)
       /\ e.hash_ok
TInit == l = 1
TNext == /\ l <= Len(Rec)
         /\ LET e == Rec[l] IN CASE e.ev = "pair" -> EvPair(e) [] OTHER -> FALSE
         /\ l' = l + 1
TraceSpec == TInit /\ [][TNext]_l
TraceAccepted ==
    LET d == TLCGet("stats").diameter IN
    IF d - 1 = Len(Rec) THEN TRUE ELSE Print(<<"TRACE-REJECTED", d>>, FALSE)
=============================================================================
