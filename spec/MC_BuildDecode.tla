----------------------------- MODULE MC_BuildDecode -----------------------------
EXTENDS BuildDecode, Json
Emit == PrintT(<<"REPLAY", ToJson([op |-> "build", kind |-> kind, serial |-> serial, times |-> times, res |-> res,
                                   uriform |-> uriform, items |-> items, feed |-> feed,
                                   nb |-> Window(times)[1], na |-> Window(times)[2],
                                   tag_nb |-> Tag(Window(times)[1]), tag_na |-> Tag(Window(times)[2]),
                                   enc_nb |-> Enc(Window(times)[1]), enc_na |-> Enc(Window(times)[2]),
                                   serial_bytes |-> SerialBytes(serial), serial_der |-> MinimalDer(SerialBytes(serial))])>>)
Laws == TimesRoundTrip /\ SerialsMinimal
=============================================================================
