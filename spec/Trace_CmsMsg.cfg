CONSTANT MaxDev = 0
SPECIFICATION TraceSpec
POSTCONDITION TraceAccepted
CHECK_DEADLOCK FALSE
