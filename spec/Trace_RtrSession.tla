--------------------------- MODULE Trace_RtrSession ---------------------------
(* Trace validation of real client/server runs.  Events are emitted by the     *)
(* harness' PayloadSource / PayloadTarget implementations, i.e. at the very    *)
(* points where the library calls into them (after the call was made, before   *)
(* anything else can observe its effect), ordered by the single driver thread. *)
(*   update  the source changed          -> SrcUpdate (values pinned)          *)
(*   begin   client.step() is called     -> CliBegin                           *)
(*   err4    legacy cache refused version-> SrvQuery (downgrade branch)        *)
(*   query   diff()/full() was called    -> SrvQuery (result kind pinned)      *)
(*   item    next() returned an item     -> SrvSendItem (item pinned)          *)
(*   eod     timing() was called         -> SrvSendEod (timing pinned)         *)
(*   apply   target.apply + step result  -> CliApply (data, state pinned)      *)
(*   fail    client.step() returned Err  -> the spec must be in phase "err"    *)
(* SyncCorrect and the other invariants are evaluated after every event.       *)
EXTENDS RtrSession, Json, IOUtils, TLCExt
Rec == ndJsonDeserialize(IOEnv.TRACE)
VARIABLE l
tvars == <<vars, l>>
It(x) == <<x[1], x[2], x[3]>>
SetOf(arr) == {It(arr[i]) : i \in 1..Len(arr)}
Ver(v) == [session |-> v.session, serial |-> v.serial, data |-> SetOf(v.data)]
TInit == Init /\ l = 1 /\ hist = << Ver(Rec[1].v) >> /\ cData = SetOf(Rec[1].data)
              /\ cState = (IF Len(Rec[1].state) = 0 THEN NoneS ELSE <<Rec[1].state[1], Rec[1].state[2]>>)
Ev == Rec[l + 1]
TNext ==
    /\ l < Len(Rec)
    /\ l' = l + 1
    /\ CASE Ev.ev = "update" -> SrcUpdate /\ hist' = Append(hist, Ver(Ev.v)) /\ timing' = Ev.timing
         [] Ev.ev = "begin"  -> CliBegin
         [] Ev.ev = "err4"   -> SrvQuery /\ calls' = calls /\ (cVer' # cVer \/ phase' = "err")
         [] Ev.ev = "query"  -> /\ SrvQuery /\ calls' = calls + 2
                                /\ CASE Ev.kind = "diff"   -> resp'.open /\ ~reset' /\ phase' = "recv"
                                     [] Ev.kind = "full"   -> resp'.open /\ reset' /\ phase' = "recv"
                                     [] Ev.kind = "nodiff" -> ~resp'.open /\ qkind' = "reset" /\ cState' = NoneS
                                     [] OTHER -> FALSE
                                /\ (Ev.kind # "nodiff" => Ev.target = <<hist[resp'.target].session, hist[resp'.target].serial>>)
         [] Ev.ev = "item"   -> /\ SrvSendItem /\ Head(resp.items) = <<Ev.act, It(Ev.item)>>
         [] Ev.ev = "eod"    -> SrvSendEod /\ eod'.timing = Ev.timing
         [] Ev.ev = "apply"  -> /\ CliApply /\ cData' = SetOf(Ev.data) /\ reset = Ev.reset
                                /\ cState = <<Ev.state[1], Ev.state[2]>>
                                /\ (cVer >= 1 => cTiming = Ev.timing)
         [] Ev.ev = "fail"   -> phase = "err" /\ UNCHANGED vars
         [] OTHER -> FALSE
TraceSpec == TInit /\ [][TNext]_tvars
TraceAccepted ==
    LET d == TLCGet("stats").diameter IN
    IF d = Len(Rec) THEN TRUE ELSE Print(<<"TRACE-REJECTED", d + 1>>, FALSE)
=============================================================================
