CONSTANTS
  MaxSupply = 2
  Level = 1
  Worlds <- AllWorlds
SPECIFICATION Spec
INVARIANTS PathBounded PathProper ResourceSafety SignersBound Confluent DoneIsAll Emit
PROPERTIES Monotone TalIsInert Terminates
CHECK_DEADLOCK FALSE
