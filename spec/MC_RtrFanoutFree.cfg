CONSTANTS
  Conns = {1, 2}
  MaxEvents = 6
  Spawned = TRUE
SPECIFICATION Spec
INVARIANTS AnswersOwn NoSpuriousNotify SubscribedAtTake NotifyFansOut
PROPERTIES Isolated Served
CHECK_DEADLOCK FALSE
