CONSTANTS MaxElems = 2 SerMax = 1000
SPECIFICATION Spec
CONSTRAINT Slim
INVARIANTS ChainLaw RetainLaw Emit EmitBulk
CHECK_DEADLOCK FALSE
