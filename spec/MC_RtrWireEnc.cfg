SPECIFICATION Spec
INVARIANTS LenLaw VersionLaw WholeOk Emit
CHECK_DEADLOCK FALSE
