---------------------------- MODULE MC_ResBuilder ----------------------------
EXTENDS ResBuilder, Json
Emit == PrintT(<<"REPLAY", ToJson([op |-> "builder", calls |-> calls, exp |-> Final, exp_tbs |-> FinalTbs, top |-> Top])>>)
=============================================================================
