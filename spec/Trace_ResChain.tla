--------------------------- MODULE Trace_ResChain ---------------------------
(* Trace validation for resource sets: a register file of chains, updated   *)
(* by the operations recorded from the real AsBlocks / IpBlocks values      *)
(* (full-width numbers, coordinate-compressed so that order, adjacency and  *)
(* the ends of the number space are preserved - DESIGN 2.3).  The spec      *)
(* recomputes every result from ITS OWN registers with the transcribed      *)
(* operators and the abstract set semantics, and the logged result must     *)
(* agree with both.                                                         *)
EXTENDS ResChain, Json, IOUtils, TLCExt
Rec == ndJsonDeserialize(IOEnv.TRACE)
Regs == 0..5
VARIABLES l, regs
tvars == <<l, regs>>

Ch(x) == [i \in 1..Len(x) |-> <<x[i][1], x[i][2]>>]     \* json array -> chain
TInit == l = 1 /\ regs = [r \in Regs |-> <<>>]

Set(r, c) == regs' = [regs EXCEPT ![r] = c]
Agree(c, S) == c = Canon(S)            \* transcription result = abstract meaning

EvReset(e)  == regs' = [r \in Regs |-> <<>>]
EvFrom(e)   == LET c == FromIter(Ch(e.inp)) IN
               /\ Agree(c, UNION {DenB(Ch(e.inp)[i]) : i \in 1..Len(e.inp)})
               /\ Ch(e.res) = c /\ Set(e.dst, c)
EvUnion(e)  == LET c == Union(regs[e.a], regs[e.b]) IN
               /\ Agree(c, Den(regs[e.a]) \cup Den(regs[e.b]))
               /\ Ch(e.res) = c /\ Set(e.dst, c)
EvInter(e)  == LET c == Trim(regs[e.a], regs[e.b]) IN
               /\ Agree(c, Den(regs[e.a]) \cap Den(regs[e.b]))
               /\ Ch(e.res) = c /\ Set(e.dst, c)
EvDiff(e)   == LET c == Difference(regs[e.a], regs[e.b]) IN
               /\ Agree(c, Den(regs[e.a]) \ Den(regs[e.b]))
               /\ Ch(e.res) = c /\ Set(e.dst, c)
EvContains(e) == /\ e.res = IsEncompassed(regs[e.b], regs[e.a])        \* a.contains(b)
                 /\ e.res = (Den(regs[e.b]) \subseteq Den(regs[e.a]))
                 /\ UNCHANGED regs
EvItem(e)   == /\ e.res = ContainsItem(regs[e.a], e.x)
               /\ e.res = (e.x \in Den(regs[e.a]))
               /\ UNCHANGED regs
EvEq(e)     == /\ e.res = ChainEq(regs[e.a], regs[e.b]) /\ UNCHANGED regs
EvIssue(e)  == LET r == VerifyIssued(regs[e.a], "blocks", regs[e.b], e.mode) IN   \* issuer a, claimed b
               /\ e.ok = r[1]
               /\ IF r[1] THEN Ch(e.res) = r[2] /\ Den(r[2]) \subseteq Den(regs[e.a]) /\ Set(e.dst, r[2])
                          ELSE UNCHANGED regs

TNext == /\ l <= Len(Rec)
         /\ LET e == Rec[l] IN
              CASE e.ev = "reset"    -> EvReset(e)
                [] e.ev = "from"     -> EvFrom(e)
                [] e.ev = "union"    -> EvUnion(e)
                [] e.ev = "inter"    -> EvInter(e)
                [] e.ev = "diff"     -> EvDiff(e)
                [] e.ev = "contains" -> EvContains(e)
                [] e.ev = "item"     -> EvItem(e)
                [] e.ev = "eq"       -> EvEq(e)
                [] e.ev = "issue"    -> EvIssue(e)
                [] OTHER -> FALSE
         /\ l' = l + 1
TraceSpec == TInit /\ [][TNext]_tvars
RegsCanon == \A r \in Regs : IsCanon(regs[r])
TraceAccepted ==
    LET d == TLCGet("stats").diameter IN
    IF d - 1 = Len(Rec) THEN TRUE ELSE Print(<<"TRACE-REJECTED", d>>, FALSE)
=============================================================================
