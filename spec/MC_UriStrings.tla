--------------------------- MODULE MC_UriStrings ---------------------------
(* Push machine: every string over the alphabet up to MaxLen is a state.    *)
EXTENDS UriAlgebra, Json
CONSTANT MaxLen
VARIABLE s
Init == s = <<>>
AppendChar == Len(s) < MaxLen /\ \E c \in Chars \cup {Bad} : s' = Append(s, c)
Next == AppendChar
Spec == Init /\ [][Next]_s
RsyncLaws == RsyncWF(s) =>
    /\ Recomposes(s) /\ RAuth(s) # <<>> /\ RModule(s) # <<>>
    /\ REq(s, s) /\ RRelativeTo(s, s) = <<>> /\ ~RIsParentOf(s, s)
    /\ LET p == RParent(s) IN p # NoneU =>
         RsyncWF(p) /\ RAuth(p) = RAuth(s) /\ RIsParentOf(p, s) /\ EndsSl(p)
HttpsLaws == HttpsWF(s) =>
    /\ s = HAuth(s) \o HPath(s) /\ HEq(s, s)
    /\ LET p == HParent(s) IN p # NoneU => HttpsWF(p) /\ HAuth(p) = HAuth(s) /\ HBeneath(p, s)
Emit == PrintT(<<"REPLAY", ToJson([op |-> "string", s |-> s,
          rsync_wf |-> RsyncWF(s), https_wf |-> HttpsWF(s),
          rauth |-> IF RsyncWF(s) THEN RAuth(s) ELSE <<>>, rmod |-> IF RsyncWF(s) THEN RModule(s) ELSE <<>>,
          rpath |-> IF RsyncWF(s) THEN RPath(s) ELSE <<>>,
          rparent |-> IF RsyncWF(s) THEN RParent(s) ELSE NoneU,
          hauth |-> IF HttpsWF(s) THEN HAuth(s) ELSE <<>>, hpath |-> IF HttpsWF(s) THEN HPath(s) ELSE <<>>,
          hparent |-> IF HttpsWF(s) THEN HParent(s) ELSE NoneU])>>)
=============================================================================
