------------------------------ MODULE Trace_CmsMsg ------------------------------
(* Verdicts of the real SignedMessage validation on randomly assembled messages   *)
(* (any number of deviating facets, arbitrary sizes of the additional signed      *)
(* attribute): accepted exactly when the specification's Accept holds.            *)
EXTENDS CmsMsg, Json, IOUtils, TLCExt
Rec == ndJsonDeserialize(IOEnv.TRACE)
VARIABLE l
TInit == l = 1 /\ devs = 0 /\ msg = [size |-> "plain", f |-> [x \in Facets |-> "ok"]]
TNext == /\ l <= Len(Rec)
         /\ LET e == Rec[l] IN e.ev = "msg" /\ e.ok = Accept([size |-> e.size, f |-> e.f])
         /\ l' = l + 1 /\ UNCHANGED vars
TraceSpec == TInit /\ [][TNext]_<<l, vars>>
TraceAccepted ==
    LET d == TLCGet("stats").diameter IN
    IF d - 1 = Len(Rec) THEN TRUE ELSE Print(<<"TRACE-REJECTED", d>>, FALSE)
=============================================================================
