CONSTANTS MaxDev = 1 MaxSteps = 2 CheckAll = TRUE
SPECIFICATION Spec
INVARIANTS OkMeansClean ErrMeansDirty StopsAtBad SettledIsCache Emit
PROPERTIES VersionStable Terminates
CHECK_DEADLOCK FALSE
