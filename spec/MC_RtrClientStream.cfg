CONSTANTS MaxDev = 1 MaxSteps = 2 CheckAll = TRUE Splits = {} CancelSafe = FALSE
SPECIFICATION Spec
INVARIANTS OkMeansClean ErrMeansDirty StopsAtBad SettledIsCache DevIsWrong Emit
PROPERTIES VersionStable Terminates
CHECK_DEADLOCK FALSE
