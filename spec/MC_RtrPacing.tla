----------------------------- MODULE MC_RtrPacing -----------------------------
EXTENDS RtrPacing, Json
Done == mode \in {"failed", "timedout"} \/ (now = MaxTime /\ mode = "wait" /\ now < deadline /\ c2s = <<>> /\ s2c = <<>>)
Emit == Done => PrintT(<<"REPLAY", ToJson([op |-> "pacing", refresh |-> Refresh, log |-> log, failed |-> (mode = "failed"), timedout |-> (mode = "timedout"), asked |-> asked, answered |-> answered])>>)
=============================================================================
