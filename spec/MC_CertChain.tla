----------------------------- MODULE MC_CertChain -----------------------------
(* Chains TA -> CA -> leaf (EE or router), one certificate validated per step.  *)
(* Mode "res": every certificate is correctly issued, resources and policies    *)
(* vary at every level.  Mode "id": resources fixed, every identity facet of    *)
(* the certificate at the chosen level varies (single and multiple tampers).    *)
(* Instants are counted in half units: certificates carry whole units (0, 2, 4),*)
(* ("long" as authority key identifier: the issuer's identifier followed by one more octet.)                          *)
(* the evaluation instant is 2 or, in the identity modes, also 3 - an instant   *)
(* strictly between two representable certificate times (X.509 times have whole *)
(* seconds, the clock has not; realised as one unit plus half a second).        *)
EXTENDS CertChain, Json
CONSTANT Mode
A3 == Atom
Sub == {{}, {"a1"}, {"a1", "a2"}, {"a2", "a3"}, A3}
ResChoices == {Res("missing", {}), Res("inherit", {})} \cup {Res("blocks", s) : s \in Sub \ {{}}}
Few == {Res("missing", {}), Res("inherit", {}), Res("blocks", {"a1"}), Res("blocks", {"a1", "a3"})}
Good(kind, key, issKey, res, policy) ==
    [kind |-> kind, key |-> key, sigKey |-> issKey, aki |-> issKey, skiOk |-> TRUE, tamper |-> "none",
     nb |-> 0, na |-> 4, policy |-> policy, res |-> res]
VARIABLES chain,     \* validated issuers so far: [key, eff]
          certs,     \* the certificates offered so far, with the verdict: [cert, ok, eff]
          now, dead  \* dead: the last certificate was rejected
vars == <<chain, certs, now, dead>>
Init == chain = <<>> /\ certs = <<>> /\ now \in (IF Mode = "res" THEN {2} ELSE {2, 3}) /\ dead = FALSE
Offer(c, ok, eff) == /\ certs' = Append(certs, [cert |-> c, ok |-> ok, eff |-> eff])
                     /\ IF ok THEN chain' = Append(chain, [key |-> c.key, eff |-> eff]) /\ dead' = FALSE
                              ELSE chain' = chain /\ dead' = TRUE
TaRes == {[v4 |-> a, v6 |-> Res("blocks", {"a1", "a2"}), as |-> b] : a \in {Res("blocks", A3), Res("blocks", {"a1", "a2"})},
                                                                     b \in {Res("blocks", A3), Res("missing", {})}}
           \cup {[v4 |-> Res("inherit", {}), v6 |-> Res("blocks", {"a1"}), as |-> Res("blocks", A3)],
                 [v4 |-> Res("blocks", A3), v6 |-> Res("inherit", {}), as |-> Res("blocks", A3)],
                 [v4 |-> Res("blocks", A3), v6 |-> Res("blocks", {"a1"}), as |-> Res("inherit", {})],
                 [v4 |-> Res("missing", {}), v6 |-> Res("inherit", {}), as |-> Res("missing", {})]}
IdVariants(base, issKey) ==
    {[base EXCEPT !.sigKey = sk, !.aki = ak, !.skiOk = so, !.tamper = tp, !.nb = nb, !.na = na] :
        sk \in Keys, ak \in Keys \cup {NoKey, "long"}, so \in BOOLEAN, tp \in {"none", "sigbit", "tbsbyte"},
        nb \in {0, 2, 4}, na \in {0, 2, 4}}
ValidateTA ==
    /\ chain = <<>> /\ ~dead /\ certs = <<>>
    /\ \E r \in (IF Mode = "res" THEN TaRes ELSE {[v4 |-> Res("blocks", A3), v6 |-> Res("blocks", {"a1", "a2"}), as |-> Res("blocks", A3)]}) :
         LET base == [Good("ta", "k0", "k0", r, "refuse") EXCEPT !.aki = NoKey] IN
         \E c \in (IF Mode = "id-ta" THEN IdVariants(base, "k0") ELSE {base, [base EXCEPT !.aki = "k0"]}) :
            Offer(c, AcceptTA(c, now), IF AcceptTA(c, now) THEN EffTA(c) ELSE [f \in Fams |-> {}])
    /\ UNCHANGED now
ValidateCA ==
    /\ Len(chain) = 1 /\ ~dead
    /\ \E p \in (IF Mode = "res" THEN {"refuse", "trim"} ELSE {"refuse"}),
          a \in (IF Mode = "res" THEN ResChoices ELSE {Res("blocks", {"a1", "a2"})}),
          s \in (IF Mode = "res" THEN Few ELSE {Res("inherit", {})}),
          v \in (IF Mode = "res" THEN {Res("inherit", {}), Res("blocks", {"a1"}), Res("blocks", {"a3"})} ELSE {Res("blocks", {"a1"})}) :
         LET base == Good("ca", "k1", chain[1].key, [v4 |-> a, v6 |-> v, as |-> s], p) IN
         \E c \in (IF Mode = "id-ca" THEN IdVariants(base, "k0") ELSE {base}) :
            Offer(c, AcceptChild(c, chain[1], now), IF AcceptChild(c, chain[1], now) THEN Eff(c, chain[1]) ELSE [f \in Fams |-> {}])
    /\ UNCHANGED now
ValidateLeaf ==
    /\ Len(chain) = 2 /\ ~dead
    /\ \E k \in {"ee", "router"}, p \in (IF Mode = "res" THEN {"refuse", "trim"} ELSE {"refuse"}),
          a \in (IF Mode = "res" THEN ResChoices ELSE {Res("blocks", {"a1"})}),
          s \in (IF Mode = "res" THEN {Res("missing", {}), Res("inherit", {}), Res("blocks", {"a1"}), Res("blocks", {"a3"})} ELSE {Res("blocks", {"a1"})}) :
         LET r == IF k = "router" THEN [v4 |-> Res("missing", {}), v6 |-> Res("missing", {}), as |-> IF s.c = "missing" THEN Res("blocks", {"a1"}) ELSE s]
                                  ELSE [v4 |-> a, v6 |-> Res("missing", {}), as |-> s]
             base == Good(k, "k2", chain[2].key, r, p) IN
         \E c \in (IF Mode = "id-leaf" THEN IdVariants(base, "k1") ELSE {base}) :
            Offer(c, AcceptChild(c, chain[2], now), IF AcceptChild(c, chain[2], now) THEN Eff(c, chain[2]) ELSE [f \in Fams |-> {}])
    /\ UNCHANGED now
Next == ValidateTA \/ ValidateCA \/ ValidateLeaf
Spec == Init /\ [][Next]_vars
\* ---- laws
NeverGrow == \A i \in 2..Len(chain) : \A f \in Fams : chain[i].eff[f] \subseteq chain[i - 1].eff[f]
TransitiveShrink == Len(chain) = 3 => \A f \in Fams : chain[3].eff[f] \subseteq chain[1].eff[f]
TaNoInherit == Len(certs) >= 1 /\ certs[1].ok => \A f \in Fams : certs[1].cert.res[f].c # "inherit"
\* single-point tampering of an accepted certificate rejects it (identity modes)
Tampered(c, d) == Cardinality({x \in {"sigKey", "aki", "skiOk", "tamper", "nb", "na"} : c[x] # d[x]}) >= 1
SinglePoint == Len(certs) >= 2 =>
                 LET c == certs[Len(certs)].cert  iss == chain[IF certs[Len(certs)].ok THEN Len(chain) - 1 ELSE Len(chain)]
                     good == [c EXCEPT !.sigKey = iss.key, !.aki = iss.key, !.skiOk = TRUE, !.tamper = "none", !.nb = 0, !.na = 4]
                 IN (AcceptChild(good, iss, now) /\ c # good /\ c.nb <= c.na /\ (c.nb > now \/ c.na < now \/ c.sigKey # iss.key \/ c.aki # iss.key \/ ~c.skiOk \/ c.tamper # "none"))
                       => ~certs[Len(certs)].ok
Final == dead \/ Len(certs) = (IF Mode = "id-ta" THEN 1 ELSE IF Mode = "id-ca" THEN 2 ELSE 3)
Emit == (certs # <<>> /\ Final) => PrintT(<<"REPLAY", ToJson([op |-> "chain", mode |-> Mode, unit |-> 2, now |-> now, certs |-> certs])>>)
=============================================================================
