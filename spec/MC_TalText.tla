------------------------------ MODULE MC_TalText ------------------------------
EXTENDS TalText, Json
Emit == PrintT(<<"REPLAY", ToJson([op |-> "tal", comments |-> comments, uris |-> uris, chunks |-> chunks, ending |-> ending,
                                   lastEnding |-> lastEnding, ok |-> Parsed.ok, preferred |-> Preferred(uris)])>>)
=============================================================================
