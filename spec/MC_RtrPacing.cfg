CONSTANTS
  Refresh = 4
  Patience = 2
  MaxTime = 7
  MaxNotify = 2
  SkipsCrossing = FALSE
SPECIFICATION Spec
INVARIANTS OneOutstanding NeverLate Emit
PROPERTIES Paced Progress
CHECK_DEADLOCK FALSE
