SPECIFICATION Spec
CONSTANT MaxStr = 2
INVARIANTS TableOk FocusReadsBack Emit
CHECK_DEADLOCK FALSE
