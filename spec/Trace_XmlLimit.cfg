SPECIFICATION TraceSpec
INVARIANTS Budgeted TripBound
POSTCONDITION TraceAccepted
CHECK_DEADLOCK FALSE
