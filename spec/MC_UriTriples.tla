--------------------------- MODULE MC_UriTriples ---------------------------
EXTENDS UriAlgebra
CONSTANT MaxLen
AllStr(n) == UNION {[1..k -> Chars] : k \in 0..n}
RsyncSet == {t \in AllStr(MaxLen) : RsyncWF(t)}
HttpsSet == {t \in AllStr(MaxLen - 3) : HttpsWF(t)}
VARIABLES x, y, z, kind
vars == <<x, y, z, kind>>
Init == \/ kind = "rsync" /\ x \in RsyncSet /\ y \in RsyncSet /\ z \in RsyncSet
        \/ kind = "https" /\ x \in HttpsSet /\ y \in HttpsSet /\ z \in HttpsSet
Next == UNCHANGED vars
Spec == Init /\ [][Next]_vars
R == kind = "rsync"
EqTrans == IF R THEN (REq(x, y) /\ REq(y, z)) => REq(x, z) ELSE (HEq(x, y) /\ HEq(y, z)) => HEq(x, z)
ParentTrans == R => ((RIsParentOf(x, y) /\ RIsParentOf(y, z)) => RIsParentOf(x, z))
ParentCongr == R => (REq(x, y) => (RIsParentOf(x, z) = RIsParentOf(y, z) /\ RIsParentOf(z, x) = RIsParentOf(z, y)))
=============================================================================
