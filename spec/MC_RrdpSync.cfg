CONSTANTS Uris = {"u1", "u2"} Datas = {"d1", "d2"} MaxHist = 3 Retain = 2 MaxSyncs = 2
SPECIFICATION Spec
VIEW view
INVARIANTS InStep Emit
CHECK_DEADLOCK FALSE
