CONSTANT W = 3
SPECIFICATION Spec
INVARIANTS Covers AllAligned Ascending Minimal PrefixIff SingleIff Emit
CHECK_DEADLOCK FALSE
