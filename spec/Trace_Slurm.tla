----------------------------- MODULE Trace_Slurm -----------------------------
(* drop_payload decisions recorded from real SlurmFile values with random     *)
(* full-size prefixes (logged in window coordinates, Wb = 10), AS numbers and *)
(* key identifiers (logged through a per-run dictionary), each explained by   *)
(* the specification's Drop and by the transcribed decision tables.           *)
EXTENDS Slurm, IOUtils, TLCExt
Rec == ndJsonDeserialize(IOEnv.TRACE)
VARIABLE l
P3(x) == <<x[1], x[2], x[3]>>
Fix(f) == IF f.kind = "prefix" THEN [kind |-> "prefix", prefix |-> P3(f.prefix), asn |-> f.asn] ELSE f
EvDrop(e) == LET fl == [i \in 1..Len(e.file) |-> Fix(e.file[i])]
                 it == Fix(e.item)
             IN e.res = Drop(fl, it) /\ e.res = ImplDrop(fl, it) /\ e.json_ok /\ e.payload_ok
TInit == l = 1 /\ file = <<>> /\ item = [kind |-> "none"]
TNext == /\ l <= Len(Rec)
         /\ LET e == Rec[l] IN CASE e.ev = "drop" -> EvDrop(e) [] OTHER -> FALSE
         /\ l' = l + 1 /\ UNCHANGED vars
TraceSpec == TInit /\ [][TNext]_<<l, vars>>
TraceAccepted ==
    LET d == TLCGet("stats").diameter IN
    IF d - 1 = Len(Rec) THEN TRUE ELSE Print(<<"TRACE-REJECTED", d>>, FALSE)
=============================================================================
