CONSTANTS CliInit = 2 SrvMax = 2 MaxHist = 2 MaxSteps = 2 Window = 1 CliStart = "none" KeepLog = TRUE Faults = TRUE Crossing = TRUE
SPECIFICATION Spec
VIEW view
PROPERTY FailAtomic
INVARIANTS SyncCorrect VersionOk Consistent NoStaleSession Emit
CHECK_DEADLOCK FALSE
