SPECIFICATION Spec
CONSTANT MaxSteps = 2
INVARIANTS SkiTracksKey Emit
PROPERTY OneField
CHECK_DEADLOCK FALSE
