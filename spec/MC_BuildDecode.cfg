SPECIFICATION Spec
INVARIANTS LayoutDiscipline Laws Emit
CHECK_DEADLOCK FALSE
