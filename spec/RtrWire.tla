------------------------------- MODULE RtrWire -------------------------------
(* The reader automaton of RtrLayout's Need table: see RtrLayout for the layout. *)
EXTENDS RtrLayout
\* ---- the reader automaton
CONSTANTS Entries, Types, Vers, Lens, Avails
VARIABLES entry, type, ver, len,    \* the case: reader entry point and header fields on the wire
          avail,                    \* bytes in the stream before it ends (or falls silent)
          open,                     \* TRUE: after `avail` bytes the stream stays open and silent instead of ending
          got,                      \* bytes consumed so far
          phase,                    \* "hdr" | "body" | "ok" | "err"
          need,                     \* body bytes still wanted
          zero                      \* 0-byte reads seen (end of stream observed)
vars == <<entry, type, ver, len, avail, open, got, phase, need, zero>>
Init == /\ entry \in Entries /\ type \in Types /\ ver \in Vers /\ len \in Lens /\ avail \in Avails /\ open \in BOOLEAN
        \* (a silent stream is only interesting when the bytes it delivered decide the case; otherwise the reader waits, rightly)
        /\ (open => avail >= 8 /\ (Need(entry, type, ver, len) = ErrN \/ avail >= 8 + Need(entry, type, ver, len)))
        /\ got = 0 /\ phase = "hdr" /\ need = 8 /\ zero = 0
Finish(ph) == phase' = ph /\ UNCHANGED <<entry, type, ver, len, avail, open, got, need, zero>>
\* read_exact / read: some bytes arrive (any chunking), or none because the stream has ended
ReadSome == /\ phase \in {"hdr", "body"} /\ need > 0 /\ got < avail
            /\ \E k \in {1, IF need < avail - got THEN need ELSE avail - got} :
                 /\ got' = got + k /\ need' = need - k
            /\ UNCHANGED <<entry, type, ver, len, avail, open, phase, zero>>
ReadEof  == /\ phase \in {"hdr", "body"} /\ need > 0 /\ got = avail /\ ~open
            /\ zero' = zero + 1 /\ phase' = "err"          \* UnexpectedEof (also in the skip loop)
            /\ UNCHANGED <<entry, type, ver, len, avail, open, got, need>>
Dispatch == /\ phase = "hdr" /\ need = 0
            /\ LET n == Need(entry, type, ver, len) IN
                 IF n = ErrN THEN phase' = "err" /\ need' = 0
                 ELSE IF n = 0 THEN phase' = "ok" /\ need' = 0
                 ELSE phase' = "body" /\ need' = n
            /\ UNCHANGED <<entry, type, ver, len, avail, open, got, zero>>
BodyDone == phase = "body" /\ need = 0 /\ Finish("ok")
Next == ReadSome \/ ReadEof \/ Dispatch \/ BodyDone
Spec == Init /\ [][Next]_vars /\ WF_vars(Next)
Bounded == got <= (IF len > 8 THEN len ELSE 8)
OkMeansComplete == phase = "ok" => (Need(entry, type, ver, len) # ErrN /\ got = 8 + Need(entry, type, ver, len) /\ got <= avail)
ErrMeansBroken == phase = "err" => (avail < 8 \/ Need(entry, type, ver, len) = ErrN \/ avail < 8 + Need(entry, type, ver, len))
SkipStopsAtEof == zero <= 1
\* on an open, silent stream the reader waits - legitimately so only for bytes the header announced for this reader
Waiting == open /\ phase \in {"hdr", "body"} /\ need > 0 /\ got = avail
Decided == avail >= 8 /\ (Need(entry, type, ver, len) = ErrN \/ avail >= 8 + Need(entry, type, ver, len))
NeverWaitsBeyondHeader == Decided => ~Waiting
Terminates == <>(phase \in {"ok", "err"} \/ Waiting)
=============================================================================
