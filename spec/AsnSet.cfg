CONSTANTS Vals = {0, 1, 2, 3} MaxItems = 3
SPECIFICATION Spec
INVARIANTS SetLaw DiffLaw SymLaw InterLaw UnionLaw Emit
CHECK_DEADLOCK FALSE
