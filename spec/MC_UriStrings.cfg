CONSTANTS Chars = {"a", "A", "b", "/", "."} MaxLen = 5
SPECIFICATION Spec
INVARIANTS RsyncLaws HttpsLaws Emit
CHECK_DEADLOCK FALSE
