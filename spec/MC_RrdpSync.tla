----------------------------- MODULE MC_RrdpSync -----------------------------
EXTENDS RrdpSync, Json
\* one line per behaviour that has used up its synchronisations (the first one reaching each distinct state)
RepoJson(r) == [u \in Uris |-> r[u]]
Emit == (syncs = MaxSyncs) =>
          PrintT(<<"REPLAY", ToJson([op |-> "rrdpsync", retain |-> Retain,
                    log |-> [i \in 1..Len(log) |-> [a |-> log[i].a, repo |-> RepoJson(log[i].repo), flaw |-> log[i].flaw, how |-> log[i].how,
                                                    listed |-> log[i].listed]]])>>)
=============================================================================
