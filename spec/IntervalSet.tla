--------------------------- MODULE IntervalSet ---------------------------
(***************************************************************************)
(* Abstract layer of the resource-set specification: chains of inclusive   *)
(* blocks <<lo, hi>> over the number line 0..Top, what set a chain denotes *)
(* and what the canonical chain of a set is.  Uses only <, =, successor    *)
(* and the two ends of the line, so it is invariant under any order- and   *)
(* adjacency-preserving embedding (DESIGN 2.3).                            *)
(***************************************************************************)
EXTENDS Naturals, Sequences, FiniteSets, SequencesExt
CONSTANT Top
Pt  == 0..Top
Blk == {b \in Pt \X Pt : b[1] <= b[2]}       \* well-formed blocks

DenB(b) == b[1]..b[2]
Den(c)  == UNION {DenB(c[i]) : i \in 1..Len(c)}

\* canonical form: ascending, disjoint, non-adjacent, lo <= hi
IsCanon(c) == /\ \A i \in 1..Len(c) : c[i][1] <= c[i][2] /\ c[i][2] <= Top
              /\ \A i \in 1..(Len(c) - 1) : c[i][2] + 1 < c[i + 1][1]

\* the unique canonical chain denoting S
Canon(S) ==
    LET starts == {x \in S : x = 0 \/ (x - 1) \notin S}
        ends   == {x \in S : x = Top \/ (x + 1) \notin S}
        ss     == SetToSortSeq(starts, <)
        es     == SetToSortSeq(ends, <)
    IN [i \in 1..Len(ss) |-> <<ss[i], es[i]>>]

\* a block expressed as a prefix: size a power of two and aligned (IP only)
IsPow2(n) == \E k \in 0..31 : n = 2^k
IsPrefixBlk(b) == LET n == b[2] - b[1] + 1 IN IsPow2(n) /\ b[1] % n = 0
=============================================================================
